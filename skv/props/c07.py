"""C07 - DOF lookup returns exactly the DOFs that control the selected
entities: provenance of every index set by entity kind, positional binding
of the ten DofsView fields, kind-wise pairing inside DofsView, dispatch."""
from __future__ import annotations

import ast
from fractions import Fraction
from typing import Any, Dict, List, Optional, Tuple

from ..dofsym import KINDS
from ..interp import (Arr, Interp as _Interp, Obj, Opaque, PyFunc, Raised,
                      SymInt, Unsupported, Bound)
from ..model import staged, AnalysisError, Model, src, walk_no_nested
from ..poly import Poly

PID = "C07"
LEVEL = "other"
TECHNIQUE = ("symbolic run of the DOF query functions with provenance-tagged "
             "index sets (which connectivity table, which selection) and "
             "tagged row filters; the DofsView dataclass field order is read "
             "from the source and every constructed view is checked field by "
             "field; dispatch of get_dofs and selector normalisation "
             "interpreted on stub meshes")
LEVEL_TEXT = (
    "Decides for every query kind and every pattern of per-entity DOF "
    "counts: (R1) the vertex set of a view derives from a vertex table "
    "(facets / t), the edge set from an edge table (f2e / t2e), the facet "
    "set from the argument or t2f, the interior set from the cell argument; "
    "kinds the element has no DOFs for, and interior DOFs of facet queries, "
    "are empty; (R2) each computed set and each name filter lands in the "
    "DofsView field of its own kind although ten arguments are passed "
    "positionally, and _dofnames_to_rows drops exactly the named rows of "
    "the right kind; (R3) flatten / keep / drop / union / the by-name "
    "properties never mix kinds and use the dofnames offsets of C04-R1; "
    "(R4) get_dofs routes elements / nodes / facets to the matching query "
    "after the matching normalisation, the argument-free call reaches "
    "boundary_facets(), complement_dofs is the set complement in "
    "range(N). Equality of the four selector forms on concrete meshes and "
    "trace dependence (C03 + C04) are not decided.")
LEVEL_TEXT += (
    " Added after the seeding phase: queries are run for 2-D, "
    "triangular-facet and quadrilateral-facet 3-D meshes; a query that "
    "raises for an admissible count pattern is a violation; attributes "
    "the stub objects do not model become opaque values, so a changed "
    "lookup is reported instead of stopping the analysis.")
LEVEL_TEXT += (
    " Added in the hunting round (defects found by independent agents "
    "on the unchanged tree, DESIGN.md 9.4 / 9.6): "
    "vertex predicates see vertex columns only; the query path reads "
    "definitely assigned attributes; predicate selectors inherited by "
    "the periodic classes (open findings).")
LEVEL_TEXT += (
    " Added in the second hunting round (DESIGN.md 9.6): "
    "the three index selectors agree on single indices (Python and "
    "NumPy integers) and the empty collection; the default side "
    "predicates are invariant under translation and unit "
    "(skv/invariance.py); facet midpoints are computed exactly "
    "(skv/nlite) on every reference cell's facet table (padded facets).")
LEVEL_TEXT += (
    " Added in the third round (review of the fix commits, DESIGN.md "
    "9.6): "
    "the tolerance of the default side tags is not derived from "
    "params() (longest cell edge).")
LEVEL_TEXT += (
    " Added in the fourth hunting round (DESIGN.md 9.6): "
    "the three selectors convert Boolean masks; the predicate for a "
    "vertex named by coordinates is invariant under translation and "
    "unit (helper methods of the mesh are evaluated interprocedurally, "
    "one level).")
LEVEL_TEXT += (
    " Added after review R7: a tag given as a list or a tuple is made an "
    "array by the helper through which tags are stored "
    "(sequence-stored-as-array); the round-off floor of the tolerance for "
    "a vertex named by coordinates is that of the named point, not of the "
    "whole mesh (point-predicate:round-off-of-the-point).")
LEVEL_NOTE = ("Trusted: numpy unique/concatenate/intersect1d/union1d/"
              "setdiff1d semantics; connectivity tables are coherent (C11).")
EXPLANATION = "Provenance-tagged symbolic runs of the DOF query code."
TRUSTED = ["numpy unique/concatenate/intersect1d/union1d/setdiff1d"]
ASSUMPTIONS = ["Mesh.facets / f2e / t / t2e / t2f are the tables C11 "
               "describes"]

DOFS = "skfem.assembly.dofs"
FD = "skfem/assembly/dofs.py"
KIND_OF_TABLE = {"facets": "nodal", "t": "nodal", "f2e": "edge",
                 "t2e": "edge", "t2f": "facet"}
# which entities index the columns of the table
DOMAIN_OF_TABLE = {"facets": "facets", "f2e": "facets", "t": "elements",
                   "t2e": "elements", "t2f": "elements"}


def Interp(model, call_hook=None):
    """interpreter in lenient mode: attributes the rule's stub objects do
    not model become opaque values (they can never equal an expected
    result, so a changed lookup is reported instead of stopping the
    analysis)"""
    base = call_hook

    def hook(interp, name, args, kwargs, node):
        r = base(interp, name, args, kwargs, node) if base else \
            NotImplemented
        if r is NotImplemented and any(
                isinstance(a, (Opaque, Derived)) for a in args):
            return Derived(f"{name.split('.')[-1]}(..)")
        return r
    it = _Interp(model, call_hook=hook)
    it.lenient_attrs = True
    return it


class Sel:
    """an index selection passed in by the caller"""
    skv_isarray = True

    def __init__(self, what):
        self.what = what

    def skv_getattr(self, name):
        if name == "dtype":
            class IntDtype:          # an index array, not a Boolean mask
                def skv_compare(self, op, other):
                    return isinstance(op, ast.NotEq)
            return IntDtype()
        raise Unsupported(f"attribute {name} of a selection")

    def __repr__(self):
        return f"<{self.what}>"


class Prov:
    """entities reached through a connectivity table from a selection"""
    skv_isarray = True

    def __init__(self, table, sel, unique=False):
        self.table, self.sel, self.unique = table, sel, unique

    def skv_getattr(self, name):
        if name in ("flatten", "astype"):
            return PyFunc(lambda a, k, n: self)
        raise Unsupported(f"attribute {name} of an index set")

    def __repr__(self):
        return f"{'unique ' if self.unique else ''}{self.table}[:, " \
               f"{self.sel!r}]"


class EmptyIx:
    skv_isarray = True

    def __repr__(self):
        return "empty"


class Derived:
    """an index set computed some other way (membership tests, masks):
    carried along so that the report can say what was delivered"""
    skv_isarray = True

    def __init__(self, text):
        self.text = text

    def skv_getattr(self, name):
        return PyFunc(lambda a, k, n: Derived(f"{self.text}.{name}(..)"))

    def skv_getitem(self, ix):
        return Derived(f"{self.text}[..]")

    def __repr__(self):
        return self.text


class TableStub:
    skv_isarray = True

    def __init__(self, name, rows=None):
        self.name, self.rows = name, rows

    def skv_getattr(self, name):
        if name == "shape" and self.rows is not None:
            return (self.rows, SymInt("n" + self.name, 7))
        raise Unsupported(f"attribute .{name} of {self.name}")

    def __repr__(self):
        return self.name

    def skv_getitem(self, ix):
        if isinstance(ix, tuple) and len(ix) == 2 and isinstance(
                ix[0], slice) and ix[0] == slice(None):
            return Prov(self.name, ix[1])
        raise Unsupported(f"index {ix!r} into {self.name}")


def _hook(interp, name, args, kwargs, node):
    if name == "numpy.unique":
        v = args[0]
        if isinstance(v, Prov):
            return Prov(v.table, v.sel, True)
        if isinstance(v, list):
            return ("unique", v)
        if isinstance(v, (TableStub, Derived)):
            return Derived(f"unique({v!r})")
        return NotImplemented
    if name in ("numpy.empty", "numpy.array") and args and \
            args[0] in ((0,), [], (0, 0)):
        return EmptyIx()
    if name == "numpy.concatenate":
        return list(args[0])
    if name == "numpy.intersect1d":
        return ("isect", args[0], args[1])
    if name == "numpy.union1d":
        return ("union", args[0], args[1])
    if name == "numpy.setdiff1d":
        return ("setdiff", args[0], args[1])
    if name == "numpy.arange":
        return ("arange", args[0])
    if name in ("numpy.isin", "numpy.in1d") and len(args) >= 2 and \
            isinstance(args[0], (TableStub, Prov, Derived)):
        return Derived(f"isin({args[0]!r}, {args[1]!r})")
    if name in ("numpy.nonzero", "numpy.where") and len(args) == 1 and \
            isinstance(args[0], Derived):
        return (Derived(f"nonzero({args[0]!r})"),)
    return NotImplemented


def _fields(model) -> List[str]:
    cls = model.cls(DOFS, "DofsView")
    out = []
    for st in cls.node.body:
        if isinstance(st, ast.AnnAssign) and isinstance(st.target, ast.Name):
            out.append(st.target.id)
    if len(out) != 10:
        raise AnalysisError(f"DofsView has {len(out)} fields, 10 expected")
    return out


def _mesh_obj(model, dim, has_bnd=True, facet_verts=None):
    mcls = model.cls("skfem.mesh.mesh", "Mesh")
    attrs = {k: TableStub(k) for k in ("f2e", "t", "t2e", "t2f")}
    attrs["facets"] = TableStub("facets", facet_verts or dim)
    attrs["edges"] = TableStub("edges", 2)
    attrs["dim"] = PyFunc(lambda a, k, n: dim)
    attrs["bndelem"] = object() if has_bnd else None
    return Obj(mcls, attrs)


def _queries(model, rep):
    R1, R2 = "C07-R1", "C07-R2"
    fields = _fields(model)
    dcls = model.cls(DOFS, "Dofs")
    n_cfg = 0
    for dim, fverts in ((2, 2), (3, 3), (3, 4)):
        for no in (0, 2):
            for ed in (0, 1):
                for fa in (0, 3):
                    n_cfg += 1
                    counts = {"nodal": no, "edge": ed, "facet": fa,
                              "interior": 1}

                    class El:
                        def skv_getattr(self, name):
                            if name.endswith("_dofs") and \
                                    name[:-5] in counts:
                                return SymInt(name, counts[name[:-5]])
                            raise Unsupported(f"element.{name}")
                    captured = []

                    def hook(interp, name, args, kwargs, node):
                        if name.endswith(".DofsView"):
                            captured.append((args, kwargs))
                            return ("view",)
                        return _hook(interp, name, args, kwargs, node)
                    rows = tuple(f"ROWS:{k}" for k in
                                 ("nodal", "facet", "edge", "interior"))
                    for q, argname, arg in (
                            ("get_facet_dofs", "facets", Sel("facets")),
                            ("get_element_dofs", "elements", Sel("elements")),
                            ("get_vertex_dofs", "nodes", Sel("nodes"))):
                        captured.clear()
                        obj = Obj(dcls, {
                            "topo": _mesh_obj(model, dim,
                                              facet_verts=fverts),
                            "element": El(),
                            "_dofnames_to_rows":
                                PyFunc(lambda a, k, n: ("R0", "R1", "R2",
                                                        "R3"))})
                        cfg0 = f"{q}|dim={dim},nodal={no},edge={ed}," \
                               f"facet={fa}"
                        try:
                            Interp(model, call_hook=hook).call(
                                dcls.methods[q], [arg], {}, self_obj=obj)
                        except Raised as e:
                            rep.fail(R1, FD, f"Dofs.{q}", f"{cfg0}:raises",
                                     f"the query raises ({e.what}) for an "
                                     f"element with {no} nodal, {ed} edge "
                                     f"and {fa} facet DOFs in {dim}-D",
                                     dcls.methods[q].lineno)
                            continue
                        except Unsupported as e:
                            raise AnalysisError(f"Dofs.{q}: {e}")
                        if len(captured) != 1:
                            raise AnalysisError(f"Dofs.{q}: no DofsView "
                                                f"constructed")
                        args, kwargs = captured[0]
                        bound = dict(zip(fields, args))
                        bound.update(kwargs)
                        cfg = f"{q}|dim={dim},nodal={no},edge={ed}," \
                              f"facet={fa}" + \
                              (",quadrilateral facets" if fverts == 4
                               else "")
                        _check_view(rep, R1, R2, cfg, q, arg, bound, counts,
                                    dim, dcls.methods[q].lineno)
    rep.units("query configurations", n_cfg * 3)


def _check_view(rep, R1, R2, cfg, q, arg, bound, counts, dim, line):
    want_rows = {"nodal_rows": "R0", "facet_rows": "R1", "edge_rows": "R2",
                 "interior_rows": "R3"}
    # rows: position k of _dofnames_to_rows' result -> field of its kind
    bad = [f for f, r in want_rows.items() if bound.get(f) != r]
    if bad:
        rep.fail(R2, FD, f"Dofs.{q}", f"{cfg}:rows",
                 f"field {bad[0]} receives {bound.get(bad[0])!r}: the row "
                 f"filters returned by _dofnames_to_rows (nodal, facet, "
                 f"edge, interior) are bound to fields of another kind",
                 line)
    else:
        rep.ok(R2, f"{cfg}:rows", "row filters bound kind by kind")
    for kind in KINDS:
        f = f"{kind}_ix"
        v = bound.get(f)
        cons = f"{cfg}:{f}"
        has = counts[kind] > 0
        if kind == "edge" and dim != 3:
            has = False if q == "get_facet_dofs" else has
        # expected provenance
        if q == "get_vertex_dofs":
            exp = "arg" if kind == "nodal" else "empty"
        elif q == "get_element_dofs":
            exp = "empty" if not counts[kind] else (
                "arg" if kind == "interior" else "table")
        else:
            if kind == "interior":
                exp = "empty"
            elif not counts[kind]:
                exp = "empty"
            elif kind == "facet":
                exp = "arg"
            elif kind == "edge" and dim != 3:
                exp = "empty"
            else:
                exp = "table"
        if exp == "empty":
            ok = isinstance(v, EmptyIx)
            msg = "empty"
        elif exp == "arg":
            ok = v is arg
            msg = f"the {arg.what} argument itself"
        else:
            ok = (isinstance(v, Prov) and v.unique and v.sel is arg
                  and KIND_OF_TABLE.get(v.table) == kind
                  and DOMAIN_OF_TABLE.get(v.table) == arg.what)
            msg = f"unique entries of a {arg.what}-to-{kind} table indexed " \
                  f"by the {arg.what} argument"
        if ok:
            rep.ok(R1, cons, f"{v!r}", sample=(kind == "edge" and
                                               exp == "table"))
        else:
            rep.fail(R1, FD, f"Dofs.{q}", cons,
                     f"field {f} receives {v!r}; expected {msg}: the DOFs "
                     f"returned are not those attached to the selected "
                     f"entities and their sub-entities", line)


def _names_to_rows(model, rep):
    """Concrete run of _dofnames_to_rows with distinct names per row."""
    R2 = "C07-R2"
    dcls = model.cls(DOFS, "Dofs")
    fn = dcls.methods["_dofnames_to_rows"]
    sizes = {"nodal": 2, "facet": 3, "edge": 1, "interior": 2}
    names = []
    for k in ("nodal", "facet", "edge", "interior"):      # dofnames order
        names += [f"{k[0]}{i}" for i in range(sizes[k])]

    class Blk:
        def __init__(self, n):
            self.n = n

        def skv_getattr(self, name):
            if name == "shape":
                return (self.n, 99)
            raise Unsupported("block." + name)

    class El:
        def skv_getattr(self, name):
            if name == "dofnames":
                return names
            raise Unsupported("element." + name)

    def hook(interp, name, args, kwargs, node):
        if name == "numpy.array":
            return ("rows", list(args[0]))
        return NotImplemented
    order = ("nodal", "facet", "edge", "interior")
    for skip in (True, False):
        for kind in order:
            target = f"{kind[0]}{sizes[kind] - 1}"
            obj = Obj(dcls, {f"{k}_dofs": Blk(sizes[k]) for k in sizes})
            obj.attrs["element"] = El()
            try:
                r = Interp(model, call_hook=hook).call(
                    fn, [[target]], {"skip": skip}, self_obj=obj)
            except (Unsupported, Raised) as e:
                raise AnalysisError(f"_dofnames_to_rows: {e}")
            ok = isinstance(r, tuple) and len(r) == 4
            if ok:
                for pos, k in enumerate(order):
                    full = list(range(sizes[k]))
                    if skip:
                        want = [i for i in full
                                if not (k == kind and i == sizes[k] - 1)]
                    else:
                        want = [sizes[k] - 1] if k == kind else []
                    got = r[pos]
                    gl = got[1] if isinstance(got, tuple) else (
                        [] if isinstance(got, slice) and got == slice(0, 0)
                        else None)
                    if gl != want:
                        ok = False
            cons = f"_dofnames_to_rows[{'skip' if skip else 'keep'} " \
                   f"{target}]"
            if ok:
                rep.ok(R2, cons, f"name '{target}' "
                       f"{'removes' if skip else 'selects'} exactly row "
                       f"{sizes[kind] - 1} of the {kind} block; result "
                       f"order (nodal, facet, edge, interior)")
            else:
                rep.fail(R2, FD, "Dofs._dofnames_to_rows", cons,
                         f"filtering by the name of the last {kind} DOF "
                         f"returns {r!r}: the row is looked up in the wrong "
                         f"block or with the wrong name offset", fn.lineno)


def _view_methods(model, rep):
    R3 = "C07-R3"
    vcls = model.cls(DOFS, "DofsView")

    class Blk:
        def __init__(self, kind):
            self.kind = kind

        def skv_getitem(self, ix):
            return BlkR(self.kind, ix)

        def skv_getattr(self, name):
            if name == "shape":
                return ({"nodal": 2, "facet": 3, "edge": 5,
                         "interior": 7}[self.kind], 99)
            raise Unsupported("block." + name)

    class BlkR:
        def __init__(self, kind, rows):
            self.kind, self.rows = kind, rows

        def skv_getitem(self, ix):
            if isinstance(ix, tuple) and len(ix) == 2:
                return BlkRI(self.kind, self.rows, ix[1])
            raise Unsupported("block row index")

    class BlkRI:
        def __init__(self, kind, rows, ix):
            self.kind, self.rows, self.ix = kind, rows, ix

        def skv_getattr(self, name):
            if name == "flatten":
                return PyFunc(lambda a, k, n: self)
            raise Unsupported("selection." + name)

    def mk(tag):
        dofs = Obj(None, {f"{k}_dofs": Blk(k) for k in KINDS})
        attrs = {"obj": dofs}
        for k in KINDS:
            attrs[f"{k}_ix"] = f"IX:{tag}:{k}"
            attrs[f"{k}_rows"] = f"ROWS:{tag}:{k}"
            attrs[f"{k}_dofs"] = Blk(k)       # __getattr__ delegation
        return Obj(vcls, attrs)
    # flatten
    v = mk("s")
    try:
        r = Interp(model, call_hook=_hook).call(vcls.methods["flatten"], [],
                                                {}, self_obj=v)
    except (Unsupported, Raised) as e:
        raise AnalysisError(f"DofsView.flatten: {e}")
    sels = r[1] if isinstance(r, tuple) and r[0] == "unique" else None
    ok = isinstance(sels, list) and len(sels) == 4 and \
        sorted(s.kind for s in sels) == sorted(KINDS) and all(
            s.rows == f"ROWS:s:{s.kind}" and s.ix == f"IX:s:{s.kind}"
            for s in sels)
    _v(rep, R3, ok, "DofsView.flatten",
       "unique union of K_dofs[K_rows][:, K_ix] over the four kinds K",
       "DofsView.flatten", f"flatten combines {[(s.kind, s.rows, s.ix) for s in sels] if sels else r}: a block is filtered "
       f"with rows or entity indices of another kind, or a kind is missing",
       vcls.methods["flatten"].lineno)
    # keep / drop
    for meth, skip in (("keep", None), ("drop", True)):
        calls = []

        def d2r(a, k, n):
            calls.append((a, k))
            return tuple(f"NAMES:{x}" for x in ("nodal", "facet", "edge",
                                                "interior"))
        v = mk("s")
        v.attrs["_dofnames_to_rows"] = PyFunc(d2r)
        cap = []

        def hook(interp, name, args, kwargs, node):
            if name == "dataclasses.replace":
                cap.append(kwargs)
                return ("view",)
            return _hook(interp, name, args, kwargs, node)
        try:
            Interp(model, call_hook=hook).call(vcls.methods[meth], [["x"]],
                                               {}, self_obj=v)
        except (Unsupported, Raised) as e:
            raise AnalysisError(f"DofsView.{meth}: {e}")
        ok = len(cap) == 1 and all(
            cap[0].get(f"{k}_rows") == ("isect", f"ROWS:s:{k}", f"NAMES:{k}")
            for k in KINDS) and len(cap[0]) == 4
        okskip = len(calls) == 1 and (calls[0][1].get("skip") is True) == \
            bool(skip)
        _v(rep, R3, ok and okskip, f"DofsView.{meth}",
           "every K_rows is intersected with the rows found for the names "
           "in block K" + (" (complement for drop)" if skip else ""),
           f"DofsView.{meth}",
           f"{meth} produces {cap}: row filters of different kinds are "
           f"mixed, or the name lookup is not "
           f"{'inverted' if skip else 'direct'}",
           vcls.methods[meth].lineno)
    # union
    cap = []

    def hook(interp, name, args, kwargs, node):
        if name == "dataclasses.replace":
            cap.append(kwargs)
            return ("view",)
        return _hook(interp, name, args, kwargs, node)
    try:
        Interp(model, call_hook=hook).call(vcls.methods["__or__"], [mk("o")],
                                           {}, self_obj=mk("s"))
    except (Unsupported, Raised) as e:
        raise AnalysisError(f"DofsView.__or__: {e}")
    ok = len(cap) == 1 and all(
        cap[0].get(f"{k}_ix") == ("union", f"IX:s:{k}", f"IX:o:{k}")
        for k in KINDS)
    _v(rep, R3, ok, "DofsView.__or__", "K_ix = union of both operands' K_ix",
       "DofsView.__or__", f"union produces {cap}: entity sets of different "
       f"kinds are merged", vcls.methods["__or__"].lineno)
    # by-name properties: kind pairing and name offsets
    sizes = {"nodal": 2, "facet": 3, "edge": 5, "interior": 7}
    off_want = {"nodal": 0, "facet": 2, "edge": 5, "interior": 10}
    for k in KINDS:
        rec = []

        def byname(a, kw, n):
            rec.append((a, kw))
            return {}
        v = mk("s")
        v.attrs["_by_name"] = PyFunc(byname)
        try:
            Interp(model, call_hook=_hook).call(vcls.methods[k], [], {},
                                                self_obj=v)
        except (Unsupported, Raised) as e:
            raise AnalysisError(f"DofsView.{k}: {e}")
        ok = False
        if len(rec) == 1:
            a, kw = rec[0]
            blk = a[0]
            off = kw.get("off", 0)
            ok = (isinstance(blk, BlkR) and blk.kind == k
                  and blk.rows == f"ROWS:s:{k}"
                  and kw.get("ix") == f"IX:s:{k}"
                  and kw.get("rows") == f"ROWS:s:{k}"
                  and off == off_want[k])
        _v(rep, R3, ok, f"DofsView.{k}",
           f"{k}_dofs[{k}_rows] with {k}_ix and name offset "
           f"{off_want[k]} (= rows of the kinds before it in the dofnames "
           f"order)", f"DofsView.{k}",
           f"by-name view of the {k} DOFs is called with {rec}: kinds are "
           f"mixed or the name offset is not that of the dofnames order",
           vcls.methods[k].lineno)


def _v(rep, rule, ok, cons, okmsg, qual, badmsg, line, path=FD):
    if ok:
        rep.ok(rule, cons, okmsg)
    else:
        rep.fail(rule, path, qual, cons, badmsg, line)


def _dispatch(model, rep):
    R4 = "C07-R4"
    bcls = model.cls("skfem.assembly.basis.abstract_basis", "AbstractBasis")
    fn = bcls.methods["get_dofs"]
    path = bcls.path
    log = []

    def mk():
        log.clear()
        mesh = Obj(None, {})
        for kind in ("facets", "elements", "nodes"):
            mesh.attrs[f"normalize_{kind}"] = PyFunc(
                lambda a, k, n, kind=kind: (log.append(("norm", kind, a[0])),
                                            ("N", kind, a[0]))[1])
        dofs = Obj(None, {})
        for q in ("get_facet_dofs", "get_element_dofs", "get_vertex_dofs"):
            dofs.attrs[q] = PyFunc(
                lambda a, k, n, q=q: (log.append(("query", q, a[0], k)),
                                      ("Q", q))[1])
        return Obj(bcls, {"mesh": mesh, "dofs": dofs, "doflocs": "LOCS"})
    cases = [("facets", {"facets": Sel("f")}, "get_facet_dofs"),
             ("default", {}, "get_facet_dofs"),
             ("elements", {"elements": Sel("e")}, "get_element_dofs"),
             ("nodes", {"nodes": Sel("n")}, "get_vertex_dofs")]
    for name, kw, want in cases:
        obj = mk()
        kw = dict(kw)
        kw["skip"] = "SKIP"
        try:
            Interp(model, call_hook=_hook).call(fn, [], kw, self_obj=obj)
        except (Unsupported, Raised) as e:
            raise AnalysisError(f"get_dofs[{name}]: {e}")
        q = [x for x in log if x[0] == "query"]
        nm = [x for x in log if x[0] == "norm"]
        kind = {"get_facet_dofs": "facets", "get_element_dofs": "elements",
                "get_vertex_dofs": "nodes"}[want]
        given = kw.get(kind)
        ok = (len(q) == 1 and q[0][1] == want and len(nm) == 1
              and nm[0][1] == kind and nm[0][2] is given
              and q[0][2] == ("N", kind, given)
              and q[0][3].get("skip_dofnames") == "SKIP"
              and q[0][3].get("doflocs") == "LOCS")
        _v(rep, R4, ok, f"get_dofs[{name}]",
           f"{want}(normalize_{kind}({'None' if given is None else kind}), "
           f"skip, doflocs)", "AbstractBasis.get_dofs",
           f"selection by {name} runs {log}: it must be normalised as "
           f"{kind} and answered by {want} with the skip list forwarded",
           fn.lineno, path)
    # normalize_facets(None) -> boundary_facets()
    mcls = model.cls("skfem.mesh.mesh", "Mesh")
    nf = mcls.methods["normalize_facets"]
    obj = Obj(mcls, {"boundary_facets": PyFunc(lambda a, k, n: "BND"),
                     "nfacets": Poly.sym("nfacets"),
                     "nelements": Poly.sym("nelements")})

    def _nhook(interp, name, args, kwargs, node):
        if name == "numpy.arange":
            return ("arange",) + tuple(str(a) for a in args)
        return _hook(interp, name, args, kwargs, node)
    try:
        r = Interp(model, call_hook=_nhook).call(nf, [None], {}, self_obj=obj)
    except (Unsupported, Raised) as e:
        raise AnalysisError(f"normalize_facets(None): {e}")
    _v(rep, R4, r == "BND", "normalize_facets[None]",
       "the argument-free query selects boundary_facets()",
       "Mesh.normalize_facets", f"normalize_facets(None) gives {r!r}, not "
       f"the boundary facets", nf.lineno, mcls.path)
    # selectors: index arrays pass through, names look up the tag tables
    for meth, table in (("normalize_facets", "boundaries"),
                        ("normalize_elements", "subdomains")):
        f = mcls.methods[meth]
        arr = Sel("array")
        tagged = Sel("the tagged index array")
        obj = Obj(mcls, {table: {"tag": tagged}})
        try:
            r1 = Interp(model, call_hook=_hook).call(f, [arr], {},
                                                     self_obj=obj)
            r2 = Interp(model, call_hook=_hook).call(f, ["tag"], {},
                                                     self_obj=obj)
            try:
                Interp(model, call_hook=_hook).call(f, ["other"], {},
                                                    self_obj=obj)
                r3 = "returned"
            except Raised:
                r3 = "raised"
        except (Unsupported, Raised) as e:
            raise AnalysisError(f"{meth}: {e}")
        _v(rep, R4, r1 is arr and r2 is tagged and r3 == "raised",
           f"{meth}[array/name]",
           f"index arrays pass through, a name returns self.{table}[name], "
           f"an unknown name raises", f"Mesh.{meth}",
           f"{meth}: array -> {r1!r}, known name -> {r2!r}, unknown name "
           f"{r3}", f.lineno, mcls.path)
    # complement
    cf = bcls.methods["complement_dofs"]
    obj = Obj(bcls, {})
    obj.attrs["N"] = Poly.sym("N")
    obj.attrs["element_dofs"] = TableStub("element_dofs")
    obj.attrs["nodal_dofs"] = TableStub("nodal_dofs")
    d = Sel("D")
    try:
        r = Interp(model, call_hook=_hook).call(cf, [d], {}, self_obj=obj)
    except (Unsupported, Raised) as e:
        raise AnalysisError(f"complement_dofs: {e}")
    ok = (isinstance(r, tuple) and r[0] == "setdiff"
          and r[1] == ("arange", Poly.sym("N")) and r[2] == [d])
    _v(rep, R4, ok, "complement_dofs",
       "setdiff1d(arange(N), concatenate(D))", "AbstractBasis.complement_dofs",
       f"complement_dofs computes {r!r}, not the complement in range(N): "
       f"for a basis covering part of the mesh the DOFs outside its cells "
       f"are missing from the complement",
       cf.lineno, path)


def _conditional_attributes(model, rep):
    """A basis built with the documented option disable_doflocs=True (or
    whose location computation failed inside the constructor's try) has no
    attribute 'doflocs'.  The DOF query needs no locations: it must not read
    an attribute the constructor assigns only conditionally, except through
    getattr(..., default) / hasattr.  Definite-assignment check over
    AbstractBasis.__init__ and every method of the query path."""
    R4 = "C07-R4"
    bcls = model.cls("skfem.assembly.basis.abstract_basis", "AbstractBasis")
    init = bcls.methods["__init__"]

    def stores(stmts, cond):
        out = {}
        for st in stmts:
            if isinstance(st, (ast.If, ast.Try, ast.For, ast.While,
                               ast.With)):
                inner = []
                for fld in ("body", "orelse", "handlers", "finalbody"):
                    for x in getattr(st, fld, []):
                        inner += x.body if isinstance(
                            x, ast.ExceptHandler) else [x]
                for k, v in stores(inner, True).items():
                    out[k] = out.get(k, True) and v
                if isinstance(st, ast.If):
                    # assigned on both branches -> unconditional
                    a = stores(st.body, False)
                    b = stores(st.orelse, False)
                    for k in set(a) & set(b):
                        if not a[k] and not b[k] and not cond:
                            out[k] = False
            else:
                for n in ast.walk(st):
                    if isinstance(n, (ast.Assign, ast.AnnAssign,
                                      ast.AugAssign)):
                        tg = n.targets if isinstance(n, ast.Assign) \
                            else [n.target]
                        for t in tg:
                            for x in (t.elts if isinstance(t, ast.Tuple)
                                      else [t]):
                                if isinstance(x, ast.Attribute) and \
                                        isinstance(x.value, ast.Name) and \
                                        x.value.id == "self":
                                    out[x.attr] = out.get(x.attr, True) \
                                        and cond
        return out
    st = stores(init.node.body, False)      # attr -> only conditionally?
    conditional = {a for a, c in st.items() if c}
    if "doflocs" not in st:
        raise AnalysisError("AbstractBasis.__init__ no longer assigns "
                            "doflocs")
    n = 0
    for meth in ("get_dofs", "find_dofs", "complement_dofs", "split",
                 "split_indices"):
        fn = bcls.methods.get(meth)
        if fn is None:
            continue
        n += 1
        bad = []
        for x in walk_no_nested(fn.node):
            if isinstance(x, ast.Attribute) and isinstance(
                    x.value, ast.Name) and x.value.id == "self" and \
                    x.attr in conditional and isinstance(x.ctx, ast.Load):
                bad.append(x)
        cons = f"AbstractBasis.{meth}:definitely-assigned"
        if bad:
            rep.fail(R4, fn.path, f"AbstractBasis.{meth}", cons,
                     f"reads self.{bad[0].attr}, which the constructor "
                     f"assigns only conditionally (not with "
                     f"disable_doflocs=True, not when the location "
                     f"computation fails): every form of the query raises "
                     f"AttributeError on such a basis although the "
                     f"numbering is the same and no locations are needed "
                     f"(use getattr(self, '{bad[0].attr}', None))",
                     bad[0].lineno)
        else:
            rep.ok(R4, cons, "reads only attributes the constructor always "
                             "assigns (or guards the read)")
    if n < 2:
        raise AnalysisError("DOF query methods not found")


def _predicates(model, rep):
    """callable selectors and tagging: midpoints of the right entities,
    optional restriction to the boundary, names stored as given"""
    R4 = "C07-R4"
    mcls = model.cls("skfem.mesh.mesh", "Mesh")
    path = mcls.path

    class T(tuple):
        skv_isarray = True

        def skv_getattr(self, name):
            if name == "astype":
                return PyFunc(lambda a, k, n: self)
            if name == "mean":
                def mean(a, k, n):
                    ax = k.get("axis", a[0] if a else None)
                    return T(("mean", ax, self))
                return PyFunc(mean)
            raise Unsupported(f"attribute {name}")

    class P:
        skv_isarray = True

        def skv_getitem(self, ix):
            return T(("gather", ix[1]))

    def hook(interp, name, args, kwargs, node):
        if name == "numpy.nonzero":
            return [T(("nonzero", args[0]))]
        if name == "numpy.intersect1d":
            return T(("isect", args[0], args[1]))
        if name == "dataclasses.replace":
            return ("replaced", kwargs)
        return NotImplemented
    test = PyFunc(lambda a, k, n: T(("test", a[0])))
    pts = P()

    def mk():
        return Obj(mcls, {"p": pts, "facets": "FACETS", "t": "CELLS",
                          "nvertices": Poly.sym("nvertices"),
                          "boundary_facets": PyFunc(lambda a, k, n: "BF"),
                          # audited exactly below (facet-midpoints)
                          "_facet_midpoints": PyFunc(lambda a, k, n: T((
                              "mean", 1, T(("gather", "FACETS"))))),
                          "boundary_nodes": PyFunc(lambda a, k, n: "BN")})
    cases = [("facets_satisfying", "FACETS", "BF"),
             ("elements_satisfying", "CELLS", None),
             ("nodes_satisfying", None, "BN")]
    for meth, table, bnd in cases:
        fn = mcls.methods[meth]
        for bo in ((False, True) if bnd else (False,)):
            kw = {"boundaries_only": True} if bo else {}
            try:
                r = Interp(model, call_hook=hook).call(fn, [test], kw,
                                                       self_obj=mk())
            except (Unsupported, Raised) as e:
                raise AnalysisError(f"Mesh.{meth}: {e}")
            arg = T(("mean", 1, T(("gather", table)))) if table else pts
            want = T(("nonzero", T(("test", arg))))
            if bo:
                want = T(("isect", want, bnd))
            ok = (r == want) if table else (
                r == want or (not bo and isinstance(r, tuple)
                              and r[0] == "nonzero"
                              and r[1] == ("test", pts)))
            if not table:
                # nodes: the test receives the *vertex* columns of the point
                # array - the array also stores the mid-side nodes of
                # second-order meshes and unused points, which have no
                # vertex DOFs (indices beyond nodal_dofs)
                core = r[1] if bo and isinstance(r, tuple) and \
                    r[0] == "isect" else r
                NVS = Poly.sym("nvertices")
                arg_ok = (isinstance(core, tuple) and core[0] == "nonzero"
                          and isinstance(core[1], tuple)
                          and core[1][0] == "test"
                          and isinstance(core[1][1], tuple)
                          and core[1][1][0] == "gather"
                          and isinstance(core[1][1][1], slice)
                          and core[1][1][1].start in (None, 0)
                          and core[1][1][1].step is None
                          and core[1][1][1].stop is not None
                          and Poly.coerce(core[1][1][1].stop) == NVS)
                ok = arg_ok and (not bo or (r[0] == "isect"
                                            and r[2] == bnd))
            cons = f"Mesh.{meth}[{'boundary only' if bo else 'all'}]"
            _v(rep, R4, ok, cons,
               ("entities whose midpoint satisfies the predicate"
                if table else "vertices satisfying the predicate")
               + (", intersected with the boundary set" if bo else ""),
               f"Mesh.{meth}",
               f"a predicate selects {r!r}: it must be evaluated at the "
               f"midpoints of the {'facets' if meth[0] == 'f' else 'cells' if table else 'vertices'}"
               f" (mean over the entity's vertices; for vertices: at the "
               f"vertex columns p[:, :nvertices] only - further columns "
               f"are mid-side or unused points without vertex DOFs)"
               + (" and then be restricted to the boundary" if bo else ""),
               fn.lineno, path)
    # padded facets: a reference cell may store triangular facets in a
    # four-row table (a vertex repeated).  The midpoints handed to a facet
    # predicate are computed exactly (skv/nlite) on every reference cell's
    # own facet table: they must be the centroids of the *distinct*
    # vertices - a plain mean gives (2a + b + c) / 4 for a padded facet.
    from .. import nlite
    from ..nlite import NArr
    from ..elements import load_refdoms
    rds = load_refdoms(model)
    fs = mcls.methods["facets_satisfying"]
    helper = mcls.methods.get("_facet_midpoints")
    uses_helper = helper is not None and any(
        isinstance(x, ast.Call) and src(x.func) == "self._facet_midpoints"
        for x in ast.walk(fs.node))
    plain = any(isinstance(x, ast.Call) and isinstance(x.func, ast.Attribute)
                and x.func.attr == "mean" and "self.facets" in src(
                    x.func.value) for x in ast.walk(fs.node))
    if not uses_helper and not plain:
        raise AnalysisError("Mesh.facets_satisfying: midpoint expression "
                            "not recognised")
    nrd = 0
    for c in model.all_classes():
        if not c.path.startswith("skfem/mesh/") or mcls not in c.mro() or \
                c.find_method("facets_satisfying") is not fs:
            continue
        ea = c.attrs.get("elem")
        if ea is None:
            continue
        ecl = [x for x in model.all_classes() if x.name == src(ea)
               and x.path.startswith("skfem/element/")]
        rda = ecl[0].find_attr("refdom") if ecl else None
        rd = rds.get(src(rda[1])) if rda else None
        if rd is None or not rd.facets or rd.dim < 2 or \
                c.find_method("_facet_midpoints") is not helper:
            continue
        want = [tuple(sum(Fraction(rd.p[v][d]) for v in set(f))
                      / len(set(f)) for d in range(rd.dim))
                for f in rd.facets]
        if uses_helper:
            P_ = NArr([[Fraction(pt[d]) for pt in rd.p]
                       for d in range(rd.dim)])
            F_ = NArr([[f[r] for f in rd.facets]
                       for r in range(len(rd.facets[0]))])
            try:
                r = Interp(model, call_hook=nlite.hook).call(
                    helper, [], {},
                    self_obj=Obj(mcls, {"p": P_, "facets": F_}))
                got = [tuple(Fraction(r.data[d][k]) for d in range(rd.dim))
                       for k in range(len(rd.facets))]
            except (Unsupported, Raised, AttributeError, IndexError,
                    TypeError) as e:
                raise AnalysisError(f"Mesh._facet_midpoints on {rd.name}: "
                                    f"{e}")
        else:
            got = [tuple(sum(Fraction(rd.p[v][d]) for v in f) / len(f)
                         for d in range(rd.dim)) for f in rd.facets]
        nrd += 1
        bad = [k for k in range(len(want)) if got[k] != want[k]]
        cons = f"{c.name}.facets_satisfying:facet-midpoints"
        _v(rep, R4, not bad, cons,
           f"the {len(want)} facet midpoints of the reference cell "
           f"{rd.name} are the centroids of the facets' distinct vertices",
           "Mesh.facets_satisfying",
           f"{c.name}: the midpoint handed to a facet predicate for facet "
           f"{rd.facets[bad[0]] if bad else ''} of {rd.name} is "
           f"{tuple(map(str, got[bad[0]])) if bad else ''}, the centroid is "
           f"{tuple(map(str, want[bad[0]])) if bad else ''}"
           + (" - the facet is stored padded with a repeated vertex, which "
              "the plain mean counts twice: the predicate selects other "
              "facets than the equivalent index array, depending on which "
              "vertex is repeated" if bad and len(set(
                  rd.facets[bad[0]])) < len(rd.facets[bad[0]]) else ""),
           fs.lineno, path)
    if nrd < 5:
        raise AnalysisError(f"facet midpoints audited on {nrd} mesh classes "
                            f"only")
    # tagging keeps index arrays as given, evaluates predicates, and merges
    for meth, field, finder in (("with_boundaries", "_boundaries",
                                 "facets_satisfying"),
                                ("with_subdomains", "_subdomains",
                                 "elements_satisfying")):
        fn = mcls.methods[meth]
        other = "elements_satisfying" if finder[0] == "f" else \
            "facets_satisfying"
        obj = Obj(mcls, {field: {"old": "OLD", "b": "STALE"},
                         finder: PyFunc(lambda a, k, n: ("found", a, k)),
                         other: PyFunc(lambda a, k, n: ("other-kind", a,
                                                        k))})
        class IndexArray:
            """An integer index array given as a tag."""
            skv_isarray = True
            skv_types = ("numpy.ndarray",)

            def skv_getattr(self, name):
                if name == "dtype":
                    class IntDtype:
                        def skv_compare(self, op, other):
                            return isinstance(op, ast.NotEq)
                    return IntDtype()
                raise Unsupported("index array." + name)

        given = IndexArray()
        try:
            r = Interp(model, call_hook=hook).call(
                fn, [{"a": given, "b": test}], {}, self_obj=obj)
        except (Unsupported, Raised) as e:
            raise AnalysisError(f"Mesh.{meth}: {e}")
        tags = r[1].get(field) if isinstance(r, tuple) and \
            r[0] == "replaced" else None
        ok = (isinstance(tags, dict) and tags.get("old") == "OLD"
              and tags.get("a") is given
              and isinstance(tags.get("b"), tuple)
              and tags["b"][0] == "found" and tags["b"][1][0] is test
              and list(r[1]) == [field])
        _v(rep, R4, ok, f"Mesh.{meth}",
           "existing names kept, index arrays stored as given, predicates "
           "resolved through the midpoint query, new names override old "
           "ones", f"Mesh.{meth}",
           f"tagging produces {tags!r}: index arrays must be stored "
           f"unchanged and predicates resolved by {finder}", fn.lineno, path)


def _index_forms(model, rep):
    """The three selectors normalize_nodes / normalize_facets /
    normalize_elements translate every admissible way of naming a subset
    into an index array; the forms must agree - and the siblings with each
    other.  Decided per selector: (a) a single index is accepted as Python
    *and* NumPy integer (every index the library hands out - an element of
    boundary_facets(), np.argmax(...) - is a NumPy integer; a collection of
    them recurses into the same test); (b) the collection branch copes with
    the empty collection (np.concatenate of an empty list raises)."""
    R4 = "C07-R4"
    mcls = model.cls("skfem.mesh.mesh", "Mesh")
    for name in ("normalize_nodes", "normalize_facets",
                 "normalize_elements"):
        fn = mcls.methods.get(name)
        if fn is None:
            raise AnalysisError(f"Mesh.{name} not found")
        par = fn.params()[1]
        kinds = []          # the type expressions of isinstance(par, ...)
        for n in walk_no_nested(fn.node):
            if isinstance(n, ast.Call) and src(n.func) == "isinstance" and \
                    len(n.args) == 2 and src(n.args[0]) == par:
                t = n.args[1]
                kinds.append({src(x) for x in (
                    t.elts if isinstance(t, ast.Tuple) else [t])})
        ints = [k for k in kinds if "int" in k or "np.integer" in k
                or "numbers.Integral" in k or "Integral" in k]
        # other spellings of 'a single index of any integer type'
        generic = any(isinstance(n, ast.Call) and src(n.func) in (
            "np.isscalar", "np.ndim", "np.issubdtype", "np.shape",
            "operator.index") and any(isinstance(y, ast.Name) and y.id == par
                                      for y in ast.walk(n))
            for n in walk_no_nested(fn.node))
        if generic:
            ints = ints + [{"np.integer"}]
        cons = f"Mesh.{name}:single-index"
        if not ints:
            rep.fail(R4, fn.path, f"Mesh.{name}", cons,
                     f"no branch for a single index: '{par}' given as an "
                     f"integer (or a list of integers, which recurses "
                     f"element by element) raises NotImplementedError, "
                     f"while the sibling selectors accept it", fn.lineno)
        elif not any(k & {"np.integer", "numbers.Integral", "Integral"}
                     for k in ints):
            rep.fail(R4, fn.path, f"Mesh.{name}", cons,
                     f"'isinstance({par}, int)' accepts Python integers "
                     f"only: an index taken from the library's own arrays "
                     f"(boundary_facets()[0], np.argmax(eta), the items of "
                     f"list(ix)) is a NumPy integer and raises "
                     f"NotImplementedError", fn.lineno)
        else:
            rep.ok(R4, cons, "a single index is accepted as Python and as "
                   "NumPy integer")
        # a Boolean array with one entry per entity is the most common way
        # of naming a subset in NumPy (midpoints[0] < .5); passed through as
        # an 'index array' its values 0 / 1 are read as entity numbers
        # (remove_elements(mask) removes cells 0 and 1)
        masks = any(
            isinstance(n, ast.Compare) and isinstance(n.left, ast.Attribute)
            and n.left.attr == "dtype" and src(n.left.value) == par
            and src(n.comparators[0]) in ("bool", "np.bool_")
            for n in walk_no_nested(fn.node)) and any(
            isinstance(n, ast.Call) and src(n.func) in (
                "np.nonzero", "np.flatnonzero", "np.where")
            for n in walk_no_nested(fn.node))
        cons = f"Mesh.{name}:boolean-mask"
        if masks:
            rep.ok(R4, cons, "a Boolean array is converted to the indices "
                   "of its true entries")
        else:
            rep.fail(R4, fn.path, f"Mesh.{name}", cons,
                     f"an ndarray is returned as given whatever its dtype: "
                     f"a Boolean mask (midpoints[0] < .5) is then used as "
                     f"an array of the indices 0 and 1 - "
                     f"remove_elements(mask) removes exactly cells 0 and 1, "
                     f"silently", fn.lineno)
        # ... and a mask given as a *tag* (with_subdomains({'s': mask})) is
        # read by every consumer of the tag tables (restrict, save,
        # to_dict, repr) as an index array: it has to be converted where it
        # is stored, not only where one consumer looks it up
        wname = {"normalize_elements": "with_subdomains",
                 "normalize_facets": "with_boundaries"}.get(name)
        if wname is not None:
            wf = mcls.methods[wname]
            alts = [x for x in ast.walk(wf.node) if isinstance(x, ast.IfExp)
                    and isinstance(x.test, ast.Call)
                    and src(x.test.func) == "callable"]
            if len(alts) != 1:
                # the statement form: if callable(x): ... else: tags[k] = v
                ifs = [x for x in ast.walk(wf.node) if isinstance(x, ast.If)
                       and isinstance(x.test, ast.Call)
                       and src(x.test.func) == "callable" and x.orelse
                       and isinstance(x.orelse[-1], ast.Assign)]
                if len(ifs) != 1:
                    raise AnalysisError(f"Mesh.{wname}: stored value not "
                                        f"found")
                alts = [ast.IfExp(test=ifs[0].test, body=ifs[0].test,
                                  orelse=ifs[0].orelse[-1].value,
                                  lineno=ifs[0].lineno)]
            stored = alts[0].orelse
            cons = f"Mesh.{wname}:boolean-mask-stored-as-indices"
            if isinstance(stored, ast.Call):
                rep.ok(R4, cons, f"a non-callable value is stored through "
                                 f"{src(stored.func)}")
                # ... and a tag given as a list or a tuple (of indices, or
                # mask.tolist()) names the same subset as the array: the
                # lookup by name returns the stored value, so the storing
                # helper makes an array of whatever is not one (review R7
                # of F138: FacetBasis(facets='a') raised IndexError for a
                # tag given as (0, 1, 5))
                hname = src(stored.func).rsplit(".", 1)[-1]
                hf = mcls.find_method(hname)
                cons2 = f"Mesh.{wname}:sequence-stored-as-array"
                if hf is None:
                    raise AnalysisError(f"Mesh.{hname} not found")
                hpar = [a for a in hf.params() if a not in ("self", "cls")]
                conv = any(isinstance(c, ast.Call) and src(c.func) in (
                    "np.asarray", "np.asanyarray", "np.array",
                    "np.atleast_1d") and c.args
                    and src(c.args[0]) in hpar
                    for c in ast.walk(hf.node))
                if conv:
                    rep.ok(R4, cons2, f"{hname} makes an array of a list "
                                      f"or a tuple")
                else:
                    rep.fail(R4, hf.path, f"Mesh.{hname}", cons2,
                             f"{hname} returns whatever is not an ndarray "
                             f"as given: a tag given as the tuple (0, 1, 5) "
                             f"is handed to the readers as a tuple "
                             f"(FacetBasis(facets='a') raises IndexError), "
                             f"one given as mask.tolist() is read as the "
                             f"indices 0 and 1", hf.lineno)
            else:
                rep.fail(R4, wf.path, f"Mesh.{wname}", cons,
                         f"a non-callable tag value is stored as given: a "
                         f"Boolean mask then sits in the tag table, where "
                         f"restrict, remove_elements, save, to_dict and repr "
                         f"read it as the indices 0 and 1 (16 of 32 cells "
                         f"tagged: restrict keeps 2, the saved file holds "
                         f"2)", alts[0].lineno)
        cats = [c for c in walk_no_nested(fn.node) if isinstance(c, ast.Call)
                and src(c.func) in ("np.concatenate", "np.hstack")
                and c.args]
        cons = f"Mesh.{name}:empty-collection"
        if not cats:
            raise AnalysisError(f"Mesh.{name}: collection branch not found")
        bare = [c for c in cats if isinstance(
            c.args[0], (ast.ListComp, ast.GeneratorExp))]
        guarded = any(isinstance(n, ast.If) and (
            f"len({par})" in src(n.test) or src(n.test) == f"not {par}")
            for n in walk_no_nested(fn.node))
        if bare and not guarded:
            rep.fail(R4, fn.path, f"Mesh.{name}", cons,
                     f"'{src(bare[0])[:60]}' concatenates one array per "
                     f"item: the empty collection ([], set(), the empty "
                     f"selection) raises ValueError instead of selecting "
                     f"nothing", bare[0].lineno)
        else:
            rep.ok(R4, cons, "the empty collection selects nothing")


def _default_tags(model, rep):
    """Mesh.with_defaults() names the sides of the bounding box; the tag
    names are then one of the 'equivalent ways of naming a subset'.  Which
    facets lie on a side must not depend on where the mesh lies nor on the
    unit of length: every predicate handed to facets_satisfying in
    _build_default_tags is evaluated over {position, translation-invariant
    quantity} (skv/invariance.py).  np.isclose with its default rtol applies
    a *relative* tolerance to the absolute coordinate: far from the origin
    the accepted band exceeds the cell size and interior facets - in the end
    all facets - are tagged 'left'."""
    R4 = "C07-R4"
    from ..invariance import AFF, make_evaluator
    fn = model.cls("skfem.mesh.mesh", "Mesh").methods.get(
        "_build_default_tags")
    if fn is None:
        raise AnalysisError("Mesh._build_default_tags not found")
    defs = {}
    for n in ast.walk(fn.node):
        if isinstance(n, ast.Assign) and len(n.targets) == 1 and isinstance(
                n.targets[0], ast.Name):
            defs[n.targets[0].id] = n.value
    lams = [c.args[0] for c in ast.walk(fn.node) if isinstance(c, ast.Call)
            and src(c.func).endswith("_satisfying") and c.args
            and isinstance(c.args[0], ast.Lambda)]
    if len(lams) < 2:
        raise AnalysisError(f"Mesh._build_default_tags: {len(lams)} "
                            f"predicates found")
    # the vertex named by a coordinate tuple (normalize_nodes): the same
    # requirement on its predicate
    nn = model.cls("skfem.mesh.mesh", "Mesh").methods["normalize_nodes"]
    nlams = [x for x in ast.walk(nn.node) if isinstance(x, ast.Lambda)]
    if len(nlams) != 1:
        raise AnalysisError("Mesh.normalize_nodes: point predicate not found")
    for n in ast.walk(nn.node):
        if isinstance(n, ast.Assign) and len(n.targets) == 1 and isinstance(
                n.targets[0], ast.Name):
            defs.setdefault(n.targets[0].id, n.value)
    point_par = nn.params()[1]
    lams = lams + nlams
    for k, lam in enumerate(lams):
        par = lam.args.args[0].arg

        def position(e, par=par):
            return (isinstance(e, ast.Name) and e.id in (par, point_par)) \
                or (isinstance(e, ast.Attribute) and e.attr in (
                    "p", "doflocs") and src(e.value) == "self") or (
                isinstance(e, ast.Call) and src(e.func) in ("list", "tuple")
                and e.args and isinstance(e.args[0], ast.Name)
                and e.args[0].id == point_par)

        def known(e):
            if isinstance(e, ast.Call) and src(e.func) in (
                    "self.params", "self.param"):
                # params() is the *longest* edge of each cell: a tolerance
                # derived from it exceeds the short side of an anisotropic
                # cell (boundary-layer mesh: 'bottom' also gets the lowest
                # facets of the left and right sides)
                return ("bad", "the tolerance is derived from params(), the "
                               "longest edge of each cell, which says "
                               "nothing about the short side of an "
                               "anisotropic cell")
            if isinstance(e, ast.Attribute) and src(e.value) == "self" and \
                    e.attr in ("facets", "edges", "t", "t2f"):
                return ("inv", 0)       # index tables
            if isinstance(e, ast.Call) and src(e.func) == "self.dim":
                return ("inv", 0)
            if isinstance(e, ast.Call) and not e.args and isinstance(
                    e.func, ast.Attribute) and src(e.func.value) == "self":
                return helper_value(e.func.attr)
            return None

        def helper_value(mname, _cache={}):
            """value returned by an argument-free helper method of the mesh,
            evaluated by the same engine (one level)"""
            if mname in _cache:
                return _cache[mname]
            hm = model.cls("skfem.mesh.mesh", "Mesh").find_method(mname)
            if hm is None:
                return None
            from ..invariance import straight_line

            def hpos(x):
                return isinstance(x, ast.Attribute) and x.attr in (
                    "p", "doflocs") and src(x.value) == "self"

            def hknown(x):
                if isinstance(x, ast.Attribute) and src(x.value) == "self" \
                        and x.attr in ("facets", "edges", "t", "t2f"):
                    return ("inv", 0)
                if isinstance(x, ast.Call) and src(x.func) == "self.dim":
                    return ("inv", 0)
                return None
            _, henv, hev = straight_line(hm.node.body, {}, hpos, hknown)
            rets = [r.value for r in ast.walk(hm.node)
                    if isinstance(r, ast.Return) and r.value is not None]
            vals = {hev(r) for r in rets}
            _cache[mname] = vals.pop() if len(vals) == 1 else (
                "bad", f"helper {mname} returns values of different kind")
            return _cache[mname]
        v = make_evaluator(defs, position, known)(lam.body)
        cons = f"Mesh._build_default_tags:predicate[{k}]:invariant" \
            if lam not in nlams else \
            "Mesh.normalize_nodes:point-predicate:invariant"
        if v == ("inv", 0):
            rep.ok(R4, cons, "the side predicate is unchanged by a "
                   "translation of the mesh and a change of unit")
        else:
            rep.fail(R4, fn.path, "Mesh._build_default_tags", cons,
                     f"the predicate '{src(lam.body)[:60]}' depends on the "
                     f"position of the mesh or the unit of length: {v[1]} - "
                     f"MeshTri().refined(3).translated((1e5 / 3, 1e5 / 3))"
                     f".with_defaults() tags 75 facets 'left' instead of 8",
                     lam.lineno)
    # the round-off floor of that tolerance is the round-off of the *named
    # point*: taken from the largest coordinate of the whole mesh it exceeds
    # the local cell size on a graded or long mesh and the tuple selects
    # several vertices (review R7 of F139)
    def resolve(x, seen=()):
        names = set()
        for y in ast.walk(x):
            if isinstance(y, ast.Attribute) and src(y) in ("self.p",
                                                           "self.doflocs"):
                names.add("mesh")
            if isinstance(y, ast.Name) and y.id == point_par:
                names.add("point")
            elif isinstance(y, ast.Name) and y.id in defs and \
                    y.id not in seen:
                names |= resolve(defs[y.id], seen + (y.id,))
        return names
    floors = [b for b in ast.walk(nn.node) if isinstance(b, ast.BinOp)
              and isinstance(b.op, ast.Mult)
              and any(isinstance(y, ast.Attribute) and y.attr == "eps"
                      for y in ast.walk(b))]
    outer = [b for b in floors if not any(
        b is not c and b in list(ast.walk(c)) for c in floors)]
    cons = "Mesh.normalize_nodes:point-predicate:round-off-of-the-point"
    for b in outer:
        src_ = resolve(b)
        if "mesh" in src_ or "point" not in src_:
            rep.fail(R4, nn.path, "Mesh.normalize_nodes", cons,
                     f"the round-off floor '{src(b)[:70]}' is not that of "
                     f"the named point: on MeshLine([0, geomspace(1e-16, 1, "
                     f"33)]) the floor of the largest coordinate exceeds the "
                     f"cells at the origin and nodes=(0.,) selects four "
                     f"vertices", b.lineno)
            break
    else:
        rep.ok(R4, cons, f"{len(outer)} round-off floor(s) taken from the "
               f"coordinates of the named point")


def run(model: Model, rep, tier: str) -> None:
    rep.rule("C07-R1", "index sets derive from a table of their own kind / "
             "the argument; kinds without DOFs and interior DOFs of facet "
             "queries are empty")
    rep.rule("C07-R2", "positional binding of the DofsView fields kind by "
             "kind; name filters select rows of the right block")
    rep.rule("C07-R3", "DofsView.flatten/keep/drop/union/by-name never mix "
             "kinds; name offsets follow the dofnames order")
    rep.rule("C07-R4", "get_dofs dispatch, default = boundary facets, "
             "selector pass-through / tag lookup, complement")
    staged(lambda: _queries(model, rep), lambda: _names_to_rows(model, rep),
           lambda: _view_methods(model, rep), lambda: _dispatch(model, rep),
           lambda: _predicates(model, rep),
           lambda: _conditional_attributes(model, rep),
           lambda: _index_forms(model, rep),
           lambda: _default_tags(model, rep))
    from ..dgspace import report as _dg_report
    _dg_report(model, rep, "C07-R4", lambda n: n.endswith("_satisfying"),
               "the predicate is evaluated at garbage midpoints and the "
               "query (also a tag defined through a predicate) silently "
               "selects other entities", minimum=2)
    rep.require_min("C07-R1", 150)
    rep.require_min("C07-R2", 50)
    rep.require_min("C07-R3", 8)
    rep.require_min("C07-R4", 8)


_D = "skfem/assembly/dofs.py"
_AB = "skfem/assembly/basis/abstract_basis.py"
_M = "skfem/mesh/mesh.py"
MUTANTS = [
    ("tags given as lists or tuples are stored as given",
     (_M, "        if not isinstance(ix, ndarray):\n            ix = "
      "np.asarray(ix)\n            if ix.size == 0:\n                ix = "
      "ix.astype(np.int32)\n        if ix.dtype == bool:",
      "        if isinstance(ix, ndarray) and ix.dtype == bool:"), "C07-R4"),
    ("vertex by coordinates: round-off floor of the largest coordinate of "
     "the mesh",
     (_M, "                             4 * np.finfo(np.float64).eps * "
      "np.abs(x0))",
      "                             4 * np.finfo(np.float64).eps * "
      "np.abs(self.p).max())"), "C07-R4"),
    ("with_boundaries as a loop storing a Boolean mask as given",
     (_M, '        return replace(\n            self,\n            _boundaries={\n                **({} if self._boundaries is None else self._boundaries),\n                **{name: self.facets_satisfying(test_or_set, boundaries_only)\n                   if callable(test_or_set)\n                   else self._mask_to_indices(test_or_set)\n                   for name, test_or_set in boundaries.items()}\n            },\n        )',
      '        tagged = dict({} if self._boundaries is None else self._boundaries)\n        for name, test_or_set in boundaries.items():\n            if callable(test_or_set):\n                tagged[name] = self.facets_satisfying(test_or_set,\n                                                      boundaries_only)\n            else:\n                tagged[name] = test_or_set\n        return replace(self, _boundaries=tagged)'), "C07-R4"),
    ("subdomain tags store Boolean masks as given and look them up "
     "unchanged",
     [(_M, "                          if callable(test) else "
       "self._mask_to_indices(test))",
       "                          if callable(test) else test)"),
      (_M, "                return self._mask_to_indices("
       "self.subdomains[elements])",
       "                return self.subdomains[elements]")], "C07-R4"),
    ("element selector passes Boolean masks through",
     (_M, "            if elements.dtype == bool:\n                # a mask of "
      "the elements\n                return np.nonzero(elements)[0].astype("
      "np.int32)\n", ""), "C07-R4"),
    ("facet midpoints as the plain mean of the table rows",
     (_M, "        midp = self._facet_midpoints()",
      "        midp = self.p[:, self.facets].mean(axis=1)"), "C07-R4"),
    ("facet midpoint weights divided by the number of rows",
     (_M, "        return (self.p[:, f] * w).sum(axis=1) / w.sum(axis=0)",
      "        return (self.p[:, f] * w).sum(axis=1) / f.shape[0]"),
     "C07-R4"),
    ("default side tags compared with the default relative tolerance",
     (_M, "                                                             dmin,\n"
      "                                                             rtol=0.,\n",
      "                                                             dmin,\n"),
     "C07-R4"),
    ("default side tags with an absolute tolerance of fixed size",
     (_M, "        atol = self._shortest_edge() / 1e2\n",
      "        atol = 1e-8\n"), "C07-R4"),
    ("default side tags with a tolerance from the longest cell edge",
     (_M, "        atol = self._shortest_edge() / 1e2\n",
      "        atol = np.min(self.params()) / 1e2\n"), "C07-R4"),
    ("vertex named by coordinates matched with an absolute tolerance",
     (_M, "            tol = np.maximum(1e-6 * self._shortest_edge(),\n"
      "                             4 * np.finfo(np.float64).eps * "
      "np.abs(x0))\n",
      "            tol = 1e-12\n"), "C07-R4"),
    ("shortest edge measured from the origin",
     (_M, "        return np.min(np.linalg.norm(np.diff(self.p[:, ed], "
      "axis=1), axis=0))",
      "        return np.min(np.linalg.norm(self.p[:, ed][:, 0], axis=0))"),
     "C07-R4"),
    ("facet selector accepts Python integers only",
     (_M, "        if isinstance(facets, (int, np.integer)):",
      "        if isinstance(facets, int):"), "C07-R4"),
    ("node selector loses its single-index branch",
     (_M, "        if isinstance(nodes, (int, np.integer)):\n            "
      "return np.array([nodes])\n", ""), "C07-R4"),
    ("element selector concatenates the empty collection",
     (_M, "            if len(elements) == 0:\n                return "
      "np.array([], dtype=np.int32)\n", ""), "C07-R4"),
    ("DOF query reads the optional location table directly",
     ("skfem/assembly/basis/abstract_basis.py",
      "        doflocs = getattr(self, 'doflocs', None)\n",
      "        doflocs = self.doflocs\n"), "C07-R4"),
    ("vertex predicate evaluated on all stored points",
     ("skfem/mesh/mesh.py", "        p = self.p[:, :self.nvertices]\n",
      "        p = self.p\n"), "C07-R4"),
    ("complement taken within the DOFs of the basis' own cells",
     ("skfem/assembly/basis/abstract_basis.py",
      "        return np.setdiff1d(np.arange(self.N), np.concatenate(D))",
      "        return np.setdiff1d(np.unique(self.element_dofs), "
      "np.concatenate(D))"), "C07-R4"),
    ("edges of quadrilateral facets taken as all edges between selected "
     "vertices",
     ("skfem/mesh/mesh.py", "            edges = np.unique(self.f2e[:, ix])",
      "            edges = (np.unique(self.f2e[:, ix])\n"
      "                     if self.facets.shape[0] == 3 else\n"
      "                     np.nonzero(np.isin(self.edges, vertices)"
      ".all(axis=0))[0])"), "C07-R1"),
    ("facet and edge sets exchanged in get_element_dofs' DofsView(...)",
     (_D, "            nodal_ix,\n            facet_ix,\n            edge_ix,\n"
      "            interior_ix,\n            r1,",
      "            nodal_ix,\n            edge_ix,\n            facet_ix,\n"
      "            interior_ix,\n            r1,"), "C07-R1"),
    ("vertex set of a cell query read from the facet table",
     (_D, "                    else np.unique(self.topo.t[:, elements]))",
      "                    else np.unique(self.topo.t2f[:, elements]))"),
     "C07-R1"),
    ("facet query keeps interior DOFs of the cells with those numbers",
     (_D, "            nodal_ix,\n            facet_ix,\n            edge_ix,\n"
      "            np.empty((0,), dtype=np.int32),\n            r1,",
      "            nodal_ix,\n            facet_ix,\n            edge_ix,\n"
      "            facets,\n            r1,"), "C07-R1"),
    ("edge set of a facet query guarded by the facet DOF count",
     (_D, "        edge_ix = (np.empty((0,), dtype=np.int32)\n"
      "                   if self.element.edge_dofs == 0\n"
      "                   else edge_ix)",
      "        edge_ix = (np.empty((0,), dtype=np.int32)\n"
      "                   if self.element.facet_dofs == 0\n"
      "                   else edge_ix)"), "C07-R1"),
    ("_expand_facets returns edges first",
     (_M, "        return vertices, edges\n", "        return edges, "
      "vertices\n"), "C07-R1"),
    ("_expand_facets reads vertices of cells instead of facets",
     (_M, "        vertices = np.unique(self.facets[:, ix].flatten())",
      "        vertices = np.unique(self.t[:, ix].flatten())"), None),
    ("row filters of facets and edges exchanged in get_facet_dofs",
     (_D, "            np.empty((0,), dtype=np.int32),\n            r1,\n"
      "            r2,\n            r3,\n            r4,\n            doflocs"
      "\n        )\n\n    def _by_name",
      "            np.empty((0,), dtype=np.int32),\n            r1,\n"
      "            r3,\n            r2,\n            r4,\n            doflocs"
      "\n        )\n\n    def _by_name"), "C07-R2"),
    ("name lookup of edge rows forgets the facet names",
     (_D, "            if check(self.element.dofnames[i + n_nodal + n_facet],"
      " dofnames):", "            if check(self.element.dofnames[i + "
      "n_nodal], dofnames):"), "C07-R2"),
    ("_dofnames_to_rows returns edge rows before facet rows",
     (_D, "            np.array(facet_rows) if len(facet_rows) > 0 else "
      "slice(0, 0),\n            np.array(edge_rows) if len(edge_rows) > 0 "
      "else slice(0, 0),",
      "            np.array(edge_rows) if len(edge_rows) > 0 else "
      "slice(0, 0),\n            np.array(facet_rows) if len(facet_rows) > 0 "
      "else slice(0, 0),"), "C07-R2"),
    ("flatten filters the facet block with edge rows",
     (_D, "                 .facet_dofs[self.facet_rows][:, self.facet_ix]\n"
      "                 .flatten()),",
      "                 .facet_dofs[self.edge_rows][:, self.facet_ix]\n"
      "                 .flatten()),"), "C07-R3"),
    ("drop performs a keep",
     (_D, "            self._dofnames_to_rows(dofnames, skip=True)\n"
      "        )\n        return replace(",
      "            self._dofnames_to_rows(dofnames)\n"
      "        )\n        return replace("), "C07-R3"),
    ("keep assigns the edge filter to the facet rows",
     (_D, "            nodal_rows=nrows[0],\n            facet_rows=nrows[1],"
      "\n            edge_rows=nrows[2],\n            interior_rows=nrows[3],"
      "\n        )\n\n    def drop",
      "            nodal_rows=nrows[0],\n            facet_rows=nrows[2],"
      "\n            edge_rows=nrows[1],\n            interior_rows=nrows[3],"
      "\n        )\n\n    def drop"), "C07-R3"),
    ("by-name view of edge DOFs uses the facet name offset",
     (_D, "                             off=(self.nodal_dofs.shape[0]\n"
      "                                  + self.facet_dofs.shape[0]),\n"
      "                             ix=self.edge_ix,",
      "                             off=self.nodal_dofs.shape[0],\n"
      "                             ix=self.edge_ix,"), "C07-R3"),
    ("get_dofs(elements=...) answered by the facet query",
     (_AB, "            return self.dofs.get_element_dofs(elements,",
      "            return self.dofs.get_facet_dofs(elements,"), "C07-R4"),
    ("get_dofs forgets the skip list for node queries",
     (_AB, "            return self.dofs.get_vertex_dofs(nodes,\n"
      "                                             skip_dofnames=skip,",
      "            return self.dofs.get_vertex_dofs(nodes,\n"
      "                                             skip_dofnames=None,"),
     "C07-R4"),
    ("complement computed with a union",
     (_AB, "        return np.setdiff1d(np.arange(self.N), "
      "np.concatenate(D))", "        return np.union1d(np.arange(self.N), "
      "np.concatenate(D))"), "C07-R4"),
    ("argument-free query selects all facets",
     (_M, "            # Default behavior.\n            return "
      "self.boundary_facets()", "            # Default behavior.\n"
      "            return np.arange(self.nfacets)"), "C07-R4"),
    ("facet predicate evaluated at the first vertex instead of the "
     "midpoint",
     (_M, "        midp = self._facet_midpoints()\n        "
      "facets = np.nonzero(test(midp))[0].astype(np.int32)",
      "        midp = self.p[:, self.facets[0]]\n        facets = "
      "np.nonzero(test(midp))[0].astype(np.int32)"), "C07-R4"),
    ("boundaries_only ignored for facet predicates",
     (_M, "        if boundaries_only:\n            facets = "
      "np.intersect1d(facets, self.boundary_facets())",
      "        if boundaries_only and normal is not None:\n            "
      "facets = np.intersect1d(facets, self.boundary_facets())"), None),
    ("with_subdomains resolves predicates on facets",
     (_M, "                **{name: (self.elements_satisfying(test)",
      "                **{name: (self.facets_satisfying(test)"), "C07-R4"),
    ("unknown boundary name silently selects nothing",
     (_M, "                raise ValueError(\"Boundary '{}' not found.\"."
      "format(facets))", "                return np.array([], "
      "dtype=np.int32)"), "C07-R4"),
]
TWINS = [
    ("vertex by coordinates: round-off floor written with np.spacing-like "
     "factor 8",
     (_M, "                             4 * np.finfo(np.float64).eps * "
      "np.abs(x0))",
      "                             8 * np.finfo(float).eps * "
      "np.abs(x0))")),
    ("with_boundaries written as a loop with an if statement",
     (_M, '        return replace(\n            self,\n            _boundaries={\n                **({} if self._boundaries is None else self._boundaries),\n                **{name: self.facets_satisfying(test_or_set, boundaries_only)\n                   if callable(test_or_set)\n                   else self._mask_to_indices(test_or_set)\n                   for name, test_or_set in boundaries.items()}\n            },\n        )',
      '        tagged = dict({} if self._boundaries is None else self._boundaries)\n        for name, test_or_set in boundaries.items():\n            if callable(test_or_set):\n                tagged[name] = self.facets_satisfying(test_or_set,\n                                                      boundaries_only)\n            else:\n                tagged[name] = self._mask_to_indices(test_or_set)\n        return replace(self, _boundaries=tagged)')),
    ("facet selector recognises a single index with np.ndim",
     (_M, "        if isinstance(facets, (int, np.integer)):",
      "        if not isinstance(facets, (str, bool)) and not callable("
      "facets) and facets is not None and np.ndim(facets) == 0:")),
    ("facet midpoint weights compared the other way round",
     (_M, "            w[i] = (f[i] != f[:i]).all(axis=0)",
      "            w[i] = (f[:i] != f[i]).all(axis=0)")),
    ("default side tags with a tolerance of a thousandth of the cell size",
     (_M, "        atol = self._shortest_edge() / 1e2\n",
      "        atol = self._shortest_edge() / 1e3\n")),
    ("facet selector tests the numeric ABC",
     (_M, "        if isinstance(facets, (int, np.integer)):",
      "        if isinstance(facets, (int, np.integer, np.int64)):")),
    ("element selector tests emptiness by truth value",
     (_M, "            if len(elements) == 0:\n                return "
      "np.array([], dtype=np.int32)\n",
      "            if not elements:\n                return "
      "np.array([], dtype=np.int32)\n")),
    ("get_vertex_dofs passes its fields by keyword",
     (_D, "        return DofsView(\n            self,\n            nodes,\n"
      "            np.empty((0,), dtype=np.int32),\n"
      "            np.empty((0,), dtype=np.int32),\n"
      "            np.empty((0,), dtype=np.int32),\n            r1,\n"
      "            r2,\n            r3,\n            r4,\n            doflocs"
      "\n        )",
      "        return DofsView(\n            self,\n            nodal_ix=nodes"
      ",\n            edge_ix=np.empty((0,), dtype=np.int32),\n"
      "            facet_ix=np.empty((0,), dtype=np.int32),\n"
      "            interior_ix=np.empty((0,), dtype=np.int32),\n"
      "            nodal_rows=r1,\n            facet_rows=r2,\n"
      "            edge_rows=r3,\n            interior_rows=r4,\n"
      "            doflocs=doflocs\n        )")),
]
