"""Engine B (algebra part): multivariate polynomials and rational functions
over Q with exact ``fractions.Fraction`` coefficients.

A monomial is a sorted tuple of (symbol, exponent) pairs; a polynomial is a
dict monomial -> coefficient without zero entries, so two polynomials are
equal iff their dicts are equal (normal form).  Rational functions are
unreduced pairs compared by cross-multiplication.
"""
from __future__ import annotations

from fractions import Fraction
from typing import Dict, Iterable, Tuple, Union

Mono = Tuple[Tuple[str, int], ...]
Num = Union[int, Fraction]


def _mono_mul(a: Mono, b: Mono) -> Mono:
    if not a:
        return b
    if not b:
        return a
    d = dict(a)
    for s, e in b:
        d[s] = d.get(s, 0) + e
    return tuple(sorted(d.items()))


class Poly:
    __slots__ = ("t",)

    def __init__(self, terms: Dict[Mono, Fraction] = None):
        self.t = {m: c for m, c in (terms or {}).items() if c != 0}

    # constructors -----------------------------------------------------
    @staticmethod
    def const(c: Num) -> "Poly":
        c = Fraction(c)
        return Poly({(): c}) if c != 0 else Poly()

    @staticmethod
    def sym(name: str) -> "Poly":
        return Poly({((name, 1),): Fraction(1)})

    @staticmethod
    def coerce(x) -> "Poly":
        if isinstance(x, Poly):
            return x
        if isinstance(x, bool):
            return Poly.const(int(x))
        if isinstance(x, (int, Fraction)):
            return Poly.const(x)
        raise TypeError(f"cannot coerce {type(x).__name__} to Poly")

    # predicates -------------------------------------------------------
    def is_zero(self) -> bool:
        return not self.t

    def is_const(self) -> bool:
        return all(m == () for m in self.t)

    def const_value(self) -> Fraction:
        if not self.is_const():
            raise ValueError("not constant")
        return self.t.get((), Fraction(0))

    def symbols(self) -> set:
        return {s for m in self.t for s, _ in m}

    def total_degree(self) -> int:
        return max((sum(e for _, e in m) for m in self.t), default=0)

    def degree_in(self, s: str) -> int:
        return max((dict(m).get(s, 0) for m in self.t), default=0)

    # arithmetic -------------------------------------------------------
    def __add__(self, o):
        if isinstance(o, Rat):
            return Rat(self) + o
        try:
            o = Poly.coerce(o)
        except TypeError:
            return NotImplemented
        d = dict(self.t)
        for m, c in o.t.items():
            v = d.get(m, 0) + c
            if v == 0:
                d.pop(m, None)
            else:
                d[m] = v
        return Poly(d)

    __radd__ = __add__

    def __neg__(self):
        return Poly({m: -c for m, c in self.t.items()})

    def __sub__(self, o):
        if isinstance(o, Rat):
            return Rat(self) - o
        try:
            o = Poly.coerce(o)
        except TypeError:
            return NotImplemented
        return self + (-o)

    def __rsub__(self, o):
        return (-self) + o

    def __mul__(self, o):
        if isinstance(o, Rat):
            return Rat(self) * o
        try:
            o = Poly.coerce(o)
        except TypeError:
            return NotImplemented
        d: Dict[Mono, Fraction] = {}
        for m1, c1 in self.t.items():
            for m2, c2 in o.t.items():
                m = _mono_mul(m1, m2)
                v = d.get(m, 0) + c1 * c2
                if v == 0:
                    d.pop(m, None)
                else:
                    d[m] = v
        return Poly(d)

    __rmul__ = __mul__

    def __pow__(self, n):
        if isinstance(n, Fraction) and n.denominator == 1:
            n = int(n)
        if isinstance(n, Poly) and n.is_const() and \
                n.const_value().denominator == 1:
            n = int(n.const_value())
        if not isinstance(n, int) or isinstance(n, bool):
            return NotImplemented
        if n < 0:
            return Rat(Poly.const(1), self ** (-n))
        r = Poly.const(1)
        b = self
        while n:
            if n & 1:
                r = r * b
            b = b * b
            n >>= 1
        return r

    def __truediv__(self, o):
        if isinstance(o, Rat):
            return Rat(self) / o
        try:
            o = Poly.coerce(o)
        except TypeError:
            return NotImplemented
        if o.is_zero():
            raise ZeroDivisionError("polynomial division by zero")
        if o.is_const():
            c = o.const_value()
            return Poly({m: v / c for m, v in self.t.items()})
        return Rat(self, o)

    def __rtruediv__(self, o):
        return Rat(Poly.coerce(o), self).simplify_const()

    def __eq__(self, o):
        if isinstance(o, Rat):
            return o == self
        try:
            o = Poly.coerce(o)
        except TypeError:
            return NotImplemented
        return self.t == o.t

    def __hash__(self):
        return hash(frozenset(self.t.items()))

    # calculus ---------------------------------------------------------
    def diff(self, s: str) -> "Poly":
        d: Dict[Mono, Fraction] = {}
        for m, c in self.t.items():
            md = dict(m)
            e = md.get(s, 0)
            if e == 0:
                continue
            if e == 1:
                del md[s]
            else:
                md[s] = e - 1
            k = tuple(sorted(md.items()))
            d[k] = d.get(k, 0) + c * e
        return Poly(d)

    def subs(self, env: Dict[str, "Poly"]) -> "Poly":
        r = Poly()
        for m, c in self.t.items():
            term = Poly.const(c)
            for s, e in m:
                if s in env:
                    term = term * (Poly.coerce(env[s]) ** e)
                else:
                    term = term * Poly({((s, e),): Fraction(1)})
            r = r + term
        return r

    def eval(self, env: Dict[str, Num]) -> Fraction:
        tot = Fraction(0)
        for m, c in self.t.items():
            v = c
            for s, e in m:
                v *= Fraction(env[s]) ** e
            tot += v
        return tot

    def max_abs_coeff(self) -> Fraction:
        return max((abs(c) for c in self.t.values()), default=Fraction(0))

    def __repr__(self):
        if not self.t:
            return "0"
        parts = []
        for m in sorted(self.t, key=lambda m: (sum(e for _, e in m), m)):
            c = self.t[m]
            mon = "*".join(s if e == 1 else f"{s}^{e}" for s, e in m)
            if not mon:
                parts.append(f"{c}")
            elif c == 1:
                parts.append(mon)
            elif c == -1:
                parts.append("-" + mon)
            else:
                parts.append(f"{c}*{mon}")
        return " + ".join(parts).replace("+ -", "- ")


class Rat:
    """Unreduced rational function num/den."""
    __slots__ = ("n", "d")

    def __init__(self, n, d=None):
        if isinstance(n, Rat):
            assert d is None
            self.n, self.d = n.n, n.d
            return
        self.n = Poly.coerce(n)
        self.d = Poly.coerce(d) if d is not None else Poly.const(1)
        if self.d.is_zero():
            raise ZeroDivisionError("rational function with zero denominator")

    @staticmethod
    def coerce(x) -> "Rat":
        return x if isinstance(x, Rat) else Rat(Poly.coerce(x))

    def simplify_const(self):
        if self.d.is_const():
            return self.n / self.d
        return self

    def __add__(self, o):
        try:
            o = Rat.coerce(o)
        except TypeError:
            return NotImplemented
        if self.d == o.d:
            return Rat(self.n + o.n, self.d)
        return Rat(self.n * o.d + o.n * self.d, self.d * o.d)

    __radd__ = __add__

    def __neg__(self):
        return Rat(-self.n, self.d)

    def __sub__(self, o):
        try:
            o = Rat.coerce(o)
        except TypeError:
            return NotImplemented
        return self + (-o)

    def __rsub__(self, o):
        return (-self) + o

    def __mul__(self, o):
        try:
            o = Rat.coerce(o)
        except TypeError:
            return NotImplemented
        return Rat(self.n * o.n, self.d * o.d)

    __rmul__ = __mul__

    def __truediv__(self, o):
        try:
            o = Rat.coerce(o)
        except TypeError:
            return NotImplemented
        if o.n.is_zero():
            raise ZeroDivisionError
        return Rat(self.n * o.d, self.d * o.n)

    def __rtruediv__(self, o):
        return Rat.coerce(o) / self

    def __pow__(self, n):
        if isinstance(n, Fraction) and n.denominator == 1:
            n = int(n)
        if not isinstance(n, int):
            return NotImplemented
        if n < 0:
            return Rat(self.d ** (-n), self.n ** (-n))
        return Rat(self.n ** n, self.d ** n)

    def __eq__(self, o):
        try:
            o = Rat.coerce(o)
        except TypeError:
            return NotImplemented
        return self.n * o.d == o.n * self.d

    def __hash__(self):
        return 0

    def is_zero(self):
        return self.n.is_zero()

    def symbols(self):
        return self.n.symbols() | self.d.symbols()

    def subs(self, env):
        return Rat(self.n.subs(env), self.d.subs(env))

    def __repr__(self):
        return f"({self.n})/({self.d})"


def is_scalar(x) -> bool:
    return isinstance(x, (int, Fraction, Poly, Rat)) and not isinstance(x, bool)


def simplex_monomial_integral(exps: Iterable[int]) -> Fraction:
    """Integral of x1^a1 ... xd^ad over the unit simplex = prod(ai!)/(d+sum)!"""
    from math import factorial
    exps = list(exps)
    num = 1
    for a in exps:
        num *= factorial(a)
    return Fraction(num, factorial(len(exps) + sum(exps)))


def integrate_simplex(p: Poly, syms) -> Fraction:
    tot = Fraction(0)
    for m, c in p.t.items():
        md = dict(m)
        if any(s not in syms for s in md):
            raise ValueError("free symbol in integrand")
        tot += c * simplex_monomial_integral([md.get(s, 0) for s in syms])
    return tot


def integrate_box(p: Poly, syms) -> Fraction:
    tot = Fraction(0)
    for m, c in p.t.items():
        md = dict(m)
        v = c
        for s in syms:
            v *= Fraction(1, md.get(s, 0) + 1)
        tot += v
    return tot


def integrate_interval(p: Poly, s: str) -> Poly:
    """Integral over s in [0,1] of a polynomial (other symbols kept)."""
    d: Dict[Mono, Fraction] = {}
    for m, c in p.t.items():
        md = dict(m)
        e = md.pop(s, 0)
        k = tuple(sorted(md.items()))
        d[k] = d.get(k, 0) + c / (e + 1)
    return Poly(d)
