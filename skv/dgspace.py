"""Index spaces of the discontinuous (periodic) mesh classes.

In the classes derived from ``MeshDG`` the point array ``doflocs`` (= ``p``)
holds one column per (cell, local vertex) pair - they are built from a DG
element (``assert cls.elem.interior_dofs > 0``; ``from_mesh`` sizes the array
by ``Dofs(...).N``) - while ``t`` (and ``facets``, ``edges`` derived from it)
holds the numbers of the *topological* vertices after the periodic
identification.  A vertex number is therefore not a column number of the point
array.  Every method these classes reach through their MRO that indexes the
columns of the point array with vertex numbers computes on garbage unless
``MeshDG`` (which comes first in the MRO) or the class itself overrides it -
as is done for save / load / element_finder, which raise.

``inherited_vertex_indexing(model)`` returns, per such method, the classes
that inherit it and the offending expression.
"""
from __future__ import annotations

import ast
from typing import Any, Dict, List, Tuple

from .model import AnalysisError, Model, src, walk_no_nested

VERTEX_TABLES = {"t", "facets", "edges"}
POINT_ARRAYS = {"p", "doflocs"}


def _offending(fn) -> List[ast.AST]:
    """subscripts of the point array whose column index mentions a table of
    vertex numbers"""
    alias_p, alias_t = set(), set()
    for n in walk_no_nested(fn.node):
        if isinstance(n, ast.Assign):
            tg = []
            for t in n.targets:
                tg += t.elts if isinstance(t, ast.Tuple) else [t]
            vals = n.value.elts if isinstance(n.value, ast.Tuple) and \
                len(n.value.elts) == len(tg) else [n.value] * len(tg)
            for t, v in zip(tg, vals):
                if not isinstance(t, ast.Name):
                    continue
                if isinstance(v, ast.Attribute) and isinstance(
                        v.value, ast.Name) and v.value.id in ("self", "m",
                                                              "mesh"):
                    if v.attr in POINT_ARRAYS:
                        alias_p.add(t.id)
                    if v.attr in VERTEX_TABLES:
                        alias_t.add(t.id)

    def is_points(e):
        return (isinstance(e, ast.Attribute) and e.attr in POINT_ARRAYS
                and isinstance(e.value, ast.Name)
                and e.value.id in ("self", "m", "mesh")) or (
            isinstance(e, ast.Name) and e.id in alias_p)

    def mentions_vertices(e):
        for x in ast.walk(e):
            if isinstance(x, ast.Attribute) and x.attr in VERTEX_TABLES and \
                    isinstance(x.value, ast.Name) and x.value.id in (
                        "self", "m", "mesh"):
                return True
            if isinstance(x, ast.Name) and x.id in alias_t:
                return True
        return False
    out = []
    for n in walk_no_nested(fn.node):
        if isinstance(n, ast.Subscript) and is_points(n.value):
            ix = n.slice
            col = ix.elts[-1] if isinstance(ix, ast.Tuple) else ix
            if mentions_vertices(col):
                out.append(n)
    return out


def inherited_vertex_indexing(model: Model) -> Dict[str, Tuple[list, str,
                                                                Any]]:
    dg = [c for c in model.all_classes()
          if c.path.startswith("skfem/mesh/") and c.name != "MeshDG"
          and any(b.name == "MeshDG" for b in c.mro())]
    if len(dg) < 4:
        raise AnalysisError(f"only {len(dg)} classes derived from MeshDG "
                            f"found")
    res: Dict[str, Tuple[list, str, Any]] = {}
    ENTRY_PRIVATE = ("_uniform", "_adaptive")
    # __post_init__ reads rows of t beyond the vertices only for
    # second-order input (guarded by the number of rows of t)
    SKIP = {"__post_init__"}
    for c in dg:
        first: Dict[str, Tuple[Any, Any]] = {}
        for b in c.mro():
            for name, fn in b.methods.items():
                first.setdefault(name, (b, fn))   # first definition wins
        inherited = {n: (b, fn) for n, (b, fn) in first.items()
                     if b.name != "MeshDG" and b is not c and n not in SKIP}
        bad_helpers = {}
        for name, (b, fn) in inherited.items():
            off = _offending(fn)
            if not off:
                continue
            if not name.startswith("_") or name in ENTRY_PRIVATE:
                key = f"{b.name}.{name}"
                res.setdefault(key, ([], src(off[0]), fn))[0].append(c.name)
            else:
                bad_helpers[name] = src(off[0])
        # a private helper is reached through the entry points calling it
        for name, (b, fn) in inherited.items():
            if name.startswith("_") and name not in ENTRY_PRIVATE:
                continue
            for n in walk_no_nested(fn.node):
                if isinstance(n, ast.Call) and isinstance(
                        n.func, ast.Attribute) and n.func.attr in \
                        bad_helpers and isinstance(n.func.value, ast.Name) \
                        and n.func.value.id in ("self", "cls"):
                    key = f"{b.name}.{name}"
                    res.setdefault(key, ([], f"{n.func.attr}: "
                                         f"{bad_helpers[n.func.attr]}",
                                         fn))[0].append(c.name)
                    break
    return res


def report(model: Model, rep, rule: str, select, consequence: str,
           minimum: int = 1) -> None:
    """One obligation per method name selected by ``select``: inherited with
    vertex-number indexing of the point array -> violation; overridden by
    MeshDG (or not offending) -> discharged."""
    bad = inherited_vertex_indexing(model)
    dgcls = [c for c in model.all_classes() if c.name == "MeshDG"
             and c.path.startswith("skfem/mesh/")]
    if len(dgcls) != 1:
        raise AnalysisError("class MeshDG not found")
    overridden = sorted(n for n in dgcls[0].methods if select(n))
    n = 0
    for key, (classes, expr, fn) in sorted(bad.items()):
        name = key.split(".", 1)[1]
        if not select(name):
            continue
        n += 1
        rep.fail(rule, fn.path, key, f"MeshDG:{key}",
                 f"{', '.join(sorted(classes))} inherit{'s' if len(classes) == 1 else ''} "
                 f"{key}, which evaluates '{expr[:60]}': the columns of the "
                 f"point array of a discontinuous (periodic) mesh are "
                 f"numbered per (cell, local vertex), the index is a table "
                 f"of topological vertex numbers - {consequence}",
                 fn.lineno)
    for name in overridden:
        n += 1
        rep.ok(rule, f"MeshDG:{name}", "overridden by MeshDG (the inherited "
               "version would index the point array with vertex numbers)")
    if n < minimum:
        raise AnalysisError(f"MeshDG index-space rule: {n} methods "
                            f"selected, at least {minimum} expected")
