"""Tag freshness (shared by C12 / C13 / C18): a mesh derived with a changed
connectivity must set both tag fields explicitly (remapped or None) unless
the new connectivity provably keeps every cell and facet index."""
from __future__ import annotations

import ast
from dataclasses import dataclass
from typing import Dict, List, Optional, Tuple

from .model import FuncInfo, Model, src, walk_no_nested

TAG_FIELDS = ("_boundaries", "_subdomains")


@dataclass
class DerivedMesh:
    fn: FuncInfo
    call: ast.Call
    base: str
    kwargs: Dict[str, ast.expr]
    escapes: bool
    verdict: Dict[str, str]        # field -> ok reason / "INHERITED"
    escapes_field: Dict[str, bool] = None


def _assigned(fn: FuncInfo, name: str) -> List[ast.AST]:
    out = []
    for n in walk_no_nested(fn.node):
        if isinstance(n, ast.Assign):
            for t in n.targets:
                ts = t.elts if isinstance(t, ast.Tuple) else [t]
                for k, x in enumerate(ts):
                    if isinstance(x, ast.Name) and x.id == name:
                        out.append((n, k if isinstance(t, ast.Tuple)
                                    else None))
    return out


def _escapes(fn: FuncInfo, call: ast.Call, field: Optional[str] = None) -> bool:
    """does the derived mesh leave the function (returned directly, or via
    a name that is returned / used as the base of another derived mesh
    that escapes)?  With ``field``: does the value this mesh holds in that
    field leave the function - a further ``replace`` that sets the field
    itself stops the flow."""
    parents = {}
    for n in ast.walk(fn.node):
        for c in ast.iter_child_nodes(n):
            parents[c] = n
    p = parents.get(call)
    if isinstance(p, ast.Return):
        return True
    if isinstance(p, ast.Tuple) and isinstance(parents.get(p), ast.Return):
        return True
    names = set()
    if isinstance(p, ast.Assign):
        for t in p.targets:
            if isinstance(t, ast.Name):
                names.add(t.id)
    if not names:
        return True        # used in an expression we do not follow: assume
    for n in walk_no_nested(fn.node):
        if isinstance(n, ast.Return) and n.value is not None:
            stopped = set()
            if field is not None:
                for c in ast.walk(n.value):
                    if isinstance(c, ast.Call) and isinstance(
                            c.func, ast.Name) and c.func.id == "replace" \
                            and c.args and any(k.arg == field
                                               for k in c.keywords):
                        stopped.add(id(c.args[0]))
            for x in ast.walk(n.value):
                if isinstance(x, ast.Name) and x.id in names and \
                        id(x) not in stopped:
                    return True
        if isinstance(n, ast.Call) and isinstance(n.func, ast.Name) and \
                n.func.id == "replace" and n is not call and n.args and \
                isinstance(n.args[0], ast.Name) and n.args[0].id in names:
            if field is not None and any(k.arg == field
                                         for k in n.keywords):
                continue
            if _escapes(fn, n, field):
                return True
        if isinstance(n, ast.Assign) and isinstance(n.value, ast.Name) and \
                n.value.id in names:
            for t in n.targets:
                if isinstance(t, ast.Name):
                    names.add(t.id)
    return False


def _rows(e, nrows=6):
    """explicit row list of a constant row selector (int or slice)"""
    rng = list(range(nrows))
    if isinstance(e, ast.Constant) and isinstance(e.value, int):
        return [rng[e.value]]
    if isinstance(e, ast.UnaryOp) and isinstance(e.op, ast.USub) and \
            isinstance(e.operand, ast.Constant):
        return [rng[-e.operand.value]]
    if isinstance(e, ast.Slice):
        def c(x):
            if x is None:
                return None
            if isinstance(x, ast.Constant) and isinstance(x.value, int):
                return x.value
            if isinstance(x, ast.UnaryOp) and isinstance(x.op, ast.USub) \
                    and isinstance(x.operand, ast.Constant):
                return -x.operand.value
            raise ValueError
        try:
            lo, hi, st = c(e.lower), c(e.upper), c(e.step)
        except ValueError:
            return None
        # selectors reaching the (unknown) last row depend on the number
        # of rows: only prefixes / reversed prefixes are row-count free
        if (st is None or st > 0) and hi is None:
            return None
        if st is not None and st < 0 and lo is None:
            return None
        if any(v is not None and v < 0 for v in (lo, hi)):
            return None
        return rng[slice(lo, hi, st)]
    return None


def _within_cell_permutation(fn: FuncInfo, tval: ast.expr) -> Optional[str]:
    """t is (a copy of) self.t whose only stores move whole rows under a
    column selector, every value coming from the same columns, and the net
    effect under each selector is a permutation of the rows (or t is sorted
    along axis 0): vertices are reordered within cells, so cell indices and
    the facet numbering (a function of the vertex sets) keep their
    meaning."""
    if isinstance(tval, ast.Call) and src(tval.func) == "np.sort" and any(
            k.arg == "axis" and src(k.value) == "0" for k in tval.keywords) \
            and src(tval.args[0]) in ("self.t", "t"):
        return "np.sort(self.t, axis=0): vertices reordered within cells"
    if not isinstance(tval, ast.Name):
        return None
    defs = _assigned(fn, tval.id)
    if len(defs) != 1 or src(defs[0][0].value) not in (
            "self.t.copy()", "np.copy(self.t)", "self.t",
            "np.array(self.t)"):
        return None
    tn = tval.id
    stmts = sorted([n for n in walk_no_nested(fn.node)
                    if isinstance(n, ast.Assign)
                    and n.lineno > defs[0][0].lineno],
                   key=lambda n: n.lineno)

    def load(e):
        """(rows, selector text) of ``t[rows, sel]``"""
        if isinstance(e, ast.Subscript) and src(e.value) == tn and \
                isinstance(e.slice, ast.Tuple) and len(e.slice.elts) == 2:
            r = _rows(e.slice.elts[0])
            if r is not None:
                return r, src(e.slice.elts[1])
        return None
    state: Dict[str, List[int]] = {}     # selector -> current row content
    tmp: Dict[str, Tuple[List[int], str]] = {}
    nstores = 0
    for st in stmts:
        tg = st.targets[0]
        if isinstance(tg, ast.Name):
            ld = load(st.value)
            if ld is not None:
                rows, sel = ld
                cur = state.setdefault(sel, list(range(6)))
                tmp[tg.id] = ([cur[r] for r in rows], sel)
            elif tg.id in tmp:
                del tmp[tg.id]
            continue
        if isinstance(tg, ast.Subscript) and src(tg.value) == tn:
            if not (isinstance(tg.slice, ast.Tuple)
                    and len(tg.slice.elts) == 2):
                return None
            rows = _rows(tg.slice.elts[0])
            sel = src(tg.slice.elts[1])
            if rows is None:
                return None
            cur = state.setdefault(sel, list(range(6)))
            if isinstance(st.value, ast.Name) and st.value.id in tmp:
                vals, vsel = tmp[st.value.id]
            else:
                ld = load(st.value)
                if ld is None:
                    return None
                vsel = ld[1]
                vals = [state.setdefault(vsel, list(range(6)))[r]
                        for r in ld[0]]
            if vsel != sel or len(vals) != len(rows):
                return None
            for r, v in zip(rows, vals):
                cur[r] = v
            nstores += 1
    if not nstores:
        return None
    for sel, cur in state.items():
        if sorted(cur) != list(range(6)):
            return None
    moved = sorted({r for cur in state.values()
                    for r, v in enumerate(cur) if r != v})
    return (f"self.t with rows {moved} permuted under the column "
            f"selector(s) {sorted(state)}: vertices reordered within cells")


def _whole_reix(fn: FuncInfo, tval: ast.expr) -> Optional[str]:
    if not isinstance(tval, ast.Name):
        return None
    defs = _assigned(fn, tval.id)
    if len(defs) == 1 and isinstance(defs[0][0].value, ast.Call) and \
            src(defs[0][0].value.func) == "self._reix" and \
            [src(a) for a in defs[0][0].value.args] == ["self.t"]:
        return ("_reix(self.t) of the whole connectivity: order-preserving "
                "compaction of the vertex numbers keeps cell and facet order")
    return None


def _vertex_renumbering(model: Model, fn: FuncInfo,
                        tval: ast.expr) -> Optional[str]:
    """t = g(self.t) where g applies an index map to the whole table
    (returns ``M[t]``): vertices are renumbered, every cell keeps its
    position - cell indices (subdomains) stay valid, facet indices need
    not."""
    if not isinstance(tval, ast.Name):
        return None
    defs = _assigned(fn, tval.id)
    if len(defs) != 1:
        return None
    node, pos = defs[0]
    call = node.value
    if not (isinstance(call, ast.Call) and isinstance(call.func,
                                                      ast.Attribute)
            and src(call.func.value) == "self" and fn.cls is not None):
        return None
    callee = fn.cls.find_method(call.func.attr)
    if callee is None:
        return None
    argpos = [i for i, a in enumerate(call.args) if src(a) == "self.t"]
    if len(argpos) != 1:
        return None
    params = [p for p in callee.params() if p not in ("self", "cls")]
    if argpos[0] >= len(params):
        return None
    pname = params[argpos[0]]
    rets = [n for n in walk_no_nested(callee.node)
            if isinstance(n, ast.Return) and n.value is not None]
    if len(rets) != 1:
        return None
    rv = rets[0].value
    elt = rv.elts[pos] if isinstance(rv, ast.Tuple) and pos is not None \
        else rv
    # unwrap wrappers that keep shape: f(X[t]) with f in a small table
    while isinstance(elt, ast.Call) and elt.args and src(elt.func) in (
            "np.ascontiguousarray", "Mesh._squeeze_if", "self._squeeze_if"):
        elt = elt.args[0]
    if isinstance(elt, ast.Subscript) and isinstance(elt.slice, ast.Name) \
            and elt.slice.id == pname and isinstance(elt.value, ast.Name):
        return (f"t = {callee.short()}(self.t) = {elt.value.id}[self.t]: "
                f"vertices renumbered, every cell keeps its index")
    return None


def _one_dimensional(model: Model, fn: FuncInfo, kwargs) -> Optional[str]:
    c = fn.cls
    if c is None:
        return None
    el = c.find_attr("elem")
    if el is None or not isinstance(el[1], ast.Name):
        return None
    r = model.resolve(el[0].module, el[1].id)
    if not r or r[0] != "class":
        return None
    rd = r[1].find_attr("refdom")
    if rd is None or src(rd[1]) != "RefLine":
        return None
    dl = kwargs.get("doflocs")
    if dl is None:
        return "one-dimensional mesh, points unchanged"
    v = dl
    if isinstance(v, ast.Name):
        d = _assigned(fn, v.id)
        v = d[0][0].value if len(d) == 1 else None
    if isinstance(v, ast.Call) and src(v.func) == "np.hstack" and isinstance(
            v.args[0], ast.Tuple) and src(v.args[0].elts[0]) in (
            "p", "self.p", "self.doflocs"):
        return ("one-dimensional mesh: facets are vertices, new points are "
                "appended after the old ones, so facet indices persist")
    return None


def derived_meshes(model: Model, prefix: str = "skfem/mesh/") -> List[DerivedMesh]:
    out = []
    for fn in model.all_functions():
        if not fn.path.startswith(prefix):
            continue
        for call in walk_no_nested(fn.node):
            if not (isinstance(call, ast.Call)
                    and isinstance(call.func, ast.Name)
                    and call.func.id == "replace" and call.args):
                continue
            kwargs = {k.arg: k.value for k in call.keywords if k.arg}
            if "t" not in kwargs:
                continue
            dm = DerivedMesh(fn, call, src(call.args[0]), kwargs,
                             _escapes(fn, call), {},
                             {f: _escapes(fn, call, f) for f in TAG_FIELDS})
            just = (_within_cell_permutation(fn, kwargs["t"])
                    or _whole_reix(fn, kwargs["t"]))
            for f in TAG_FIELDS:
                if f in kwargs:
                    dm.verdict[f] = "set explicitly"
                elif just:
                    dm.verdict[f] = just
                elif f == "_boundaries" and _one_dimensional(model, fn,
                                                             kwargs):
                    dm.verdict[f] = _one_dimensional(model, fn, kwargs)
                elif f == "_subdomains" and _vertex_renumbering(
                        model, fn, kwargs["t"]):
                    dm.verdict[f] = _vertex_renumbering(model, fn,
                                                        kwargs["t"])
                else:
                    dm.verdict[f] = "INHERITED"
            out.append(dm)
    return out


def unsorted_meshes(model: Model, prefix: str = "skfem/"):
    """calls that build a mesh with the literal ``sort_t=False``:
    (function, call, does a mesh carrying that flag leave the function)"""
    out = []
    for fn in model.all_functions():
        if not fn.path.startswith(prefix):
            continue
        for call in walk_no_nested(fn.node):
            if not isinstance(call, ast.Call):
                continue
            kw = [k for k in call.keywords if k.arg == "sort_t"]
            if not kw:
                continue
            v = kw[0].value
            if isinstance(v, ast.Constant) and v.value is False:
                out.append((fn, call, _escapes(fn, call, "sort_t")))
    return out


# ----------------------------------------------------------------------
def oriented_remaps(model: Model):
    """Functions under skfem/mesh that carry named boundaries over to a new
    facet numbering (they read the index arrays of ``self.boundaries`` /
    ``self._boundaries`` and build new ones).  A named boundary may be an
    ``OrientedBoundary`` (index array + per-facet flag ``ori`` saying on
    which side of the facet the designated cell lies); indexing, sorting or
    re-building the indices yields a plain array, and the flags would also
    have to be recomputed against the new ``f2t``.  Returns
    [(function, handles orientation?)]."""
    out = []
    for fn in model.all_functions():
        if not fn.path.startswith("skfem/mesh/") or fn.cls is None:
            continue
        reads = False
        for n in walk_no_nested(fn.node):
            # for name, ixs in self._boundaries.items() / self.boundaries[k]
            if isinstance(n, ast.Attribute) and n.attr in (
                    "boundaries", "_boundaries") and isinstance(
                    n.value, ast.Name) and n.value.id == "self":
                reads = True
        if not reads:
            continue
        # builds new index arrays from the old ones: a dict (comprehension or
        # item stores) whose values subscript / transform the old arrays
        builds = False
        for n in walk_no_nested(fn.node):
            if isinstance(n, ast.DictComp):
                it = " ".join(src(g.iter) for g in n.generators)
                if ("self.boundaries" in it or "self._boundaries" in it) \
                        and not isinstance(n.value, ast.Name):
                    builds = True
            if isinstance(n, ast.Assign) and isinstance(
                    n.targets[0], ast.Subscript) and "boundaries" in src(
                    n.targets[0].value) and (
                    "self.boundaries" in src(n.value)
                    or "self._boundaries" in src(n.value)):
                builds = True
        if not builds:
            continue
        handles = any(
            (isinstance(n, ast.Attribute) and n.attr == "ori")
            or (isinstance(n, ast.Call) and src(n.func) == "isinstance"
                and len(n.args) == 2
                and "OrientedBoundary" in src(n.args[1]))
            or (isinstance(n, ast.Call) and "OrientedBoundary" in src(n.func))
            for n in ast.walk(fn.node))
        out.append((fn, handles))
    return out


def report_oriented_remaps(model: Model, rep, rule: str, select) -> int:
    n = 0
    for fn, handles in oriented_remaps(model):
        if not select(fn):
            continue
        n += 1
        cons = f"{fn.short()}:oriented-boundaries"
        if handles:
            rep.ok(rule, cons, "carries the orientation flags over (or "
                               "rebuilds them)")
        else:
            rep.fail(rule, fn.path, fn.short(), cons,
                     "carries the facet indices of every named boundary "
                     "over to the new numbering but not the orientation "
                     "flags of an OrientedBoundary (interfaces from "
                     "facets_around, facets_satisfying(normal=...), mesh "
                     "files): the name comes back as a plain index array, "
                     "i.e. every facet now designates side 0 of f2t - "
                     "traces and normals are taken from the other side "
                     "where the flag was 1", fn.lineno)
    return n
