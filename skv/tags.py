"""Tag freshness (shared by C12 / C13 / C18): a mesh derived with a changed
connectivity must set both tag fields explicitly (remapped or None) unless
the new connectivity provably keeps every cell and facet index."""
from __future__ import annotations

import ast
from dataclasses import dataclass
from typing import Dict, List, Optional, Tuple

from .model import FuncInfo, Model, src, walk_no_nested

TAG_FIELDS = ("_boundaries", "_subdomains")


@dataclass
class DerivedMesh:
    fn: FuncInfo
    call: ast.Call
    base: str
    kwargs: Dict[str, ast.expr]
    escapes: bool
    verdict: Dict[str, str]        # field -> ok reason / "INHERITED"


def _assigned(fn: FuncInfo, name: str) -> List[ast.AST]:
    out = []
    for n in walk_no_nested(fn.node):
        if isinstance(n, ast.Assign):
            for t in n.targets:
                ts = t.elts if isinstance(t, ast.Tuple) else [t]
                for k, x in enumerate(ts):
                    if isinstance(x, ast.Name) and x.id == name:
                        out.append((n, k if isinstance(t, ast.Tuple)
                                    else None))
    return out


def _escapes(fn: FuncInfo, call: ast.Call) -> bool:
    """does the derived mesh leave the function (returned directly, or via
    a name that is returned / used as the base of another derived mesh
    that escapes)?"""
    parents = {}
    for n in ast.walk(fn.node):
        for c in ast.iter_child_nodes(n):
            parents[c] = n
    p = parents.get(call)
    if isinstance(p, ast.Return):
        return True
    if isinstance(p, ast.Tuple) and isinstance(parents.get(p), ast.Return):
        return True
    names = set()
    if isinstance(p, ast.Assign):
        for t in p.targets:
            if isinstance(t, ast.Name):
                names.add(t.id)
    if not names:
        return True        # used in an expression we do not follow: assume
    for n in walk_no_nested(fn.node):
        if isinstance(n, ast.Return) and n.value is not None:
            for x in ast.walk(n.value):
                if isinstance(x, ast.Name) and x.id in names:
                    return True
        if isinstance(n, ast.Call) and isinstance(n.func, ast.Name) and \
                n.func.id == "replace" and n is not call and n.args and \
                isinstance(n.args[0], ast.Name) and n.args[0].id in names:
            if _escapes(fn, n):
                return True
        if isinstance(n, ast.Assign) and isinstance(n.value, ast.Name) and \
                n.value.id in names:
            for t in n.targets:
                if isinstance(t, ast.Name):
                    names.add(t.id)
    return False


def _within_cell_permutation(fn: FuncInfo, tval: ast.expr) -> Optional[str]:
    """t is a copy of self.t whose only stores exchange rows under one
    column selector (or a sort along axis 0): cell and facet indices keep
    their meaning."""
    if isinstance(tval, ast.Call) and src(tval.func) == "np.sort" and any(
            k.arg == "axis" and src(k.value) == "0" for k in tval.keywords) \
            and src(tval.args[0]) in ("self.t", "t"):
        return "np.sort(self.t, axis=0): vertices reordered within cells"
    if not isinstance(tval, ast.Name):
        return None
    defs = _assigned(fn, tval.id)
    if len(defs) != 1 or src(defs[0][0].value) != "self.t.copy()":
        return None
    tn = tval.id
    loaded: Dict[str, Tuple[str, str]] = {}
    for n in walk_no_nested(fn.node):
        if isinstance(n, ast.Assign) and isinstance(n.targets[0], ast.Name) \
                and isinstance(n.value, ast.Subscript) and \
                src(n.value.value) == tn and isinstance(
                    n.value.slice, ast.Tuple) and len(
                    n.value.slice.elts) == 2:
            r, c = n.value.slice.elts
            if isinstance(r, ast.Constant):
                loaded[n.targets[0].id] = (src(r), src(c))
    stores = [n for n in walk_no_nested(fn.node) if isinstance(n, ast.Assign)
              and isinstance(n.targets[0], ast.Subscript)
              and src(n.targets[0].value) == tn]
    if not stores:
        return None
    sel = None
    rows_w, rows_r = [], []
    for s_ in stores:
        sl = s_.targets[0].slice
        if not (isinstance(sl, ast.Tuple) and len(sl.elts) == 2
                and isinstance(sl.elts[0], ast.Constant)
                and isinstance(s_.value, ast.Name)
                and s_.value.id in loaded):
            return None
        r, c = src(sl.elts[0]), src(sl.elts[1])
        lr, lc = loaded[s_.value.id]
        if lc != c or (sel is not None and sel != c):
            return None
        sel = c
        rows_w.append(r)
        rows_r.append(lr)
    if sorted(rows_w) == sorted(rows_r) and len(set(rows_w)) == len(rows_w):
        return (f"copy of self.t with rows {sorted(rows_w)} exchanged under "
                f"the column selector {sel}: a permutation within cells")
    return None


def _whole_reix(fn: FuncInfo, tval: ast.expr) -> Optional[str]:
    if not isinstance(tval, ast.Name):
        return None
    defs = _assigned(fn, tval.id)
    if len(defs) == 1 and isinstance(defs[0][0].value, ast.Call) and \
            src(defs[0][0].value.func) == "self._reix" and \
            [src(a) for a in defs[0][0].value.args] == ["self.t"]:
        return ("_reix(self.t) of the whole connectivity: order-preserving "
                "compaction of the vertex numbers keeps cell and facet order")
    return None


def _vertex_renumbering(model: Model, fn: FuncInfo,
                        tval: ast.expr) -> Optional[str]:
    """t = g(self.t) where g applies an index map to the whole table
    (returns ``M[t]``): vertices are renumbered, every cell keeps its
    position - cell indices (subdomains) stay valid, facet indices need
    not."""
    if not isinstance(tval, ast.Name):
        return None
    defs = _assigned(fn, tval.id)
    if len(defs) != 1:
        return None
    node, pos = defs[0]
    call = node.value
    if not (isinstance(call, ast.Call) and isinstance(call.func,
                                                      ast.Attribute)
            and src(call.func.value) == "self" and fn.cls is not None):
        return None
    callee = fn.cls.find_method(call.func.attr)
    if callee is None:
        return None
    argpos = [i for i, a in enumerate(call.args) if src(a) == "self.t"]
    if len(argpos) != 1:
        return None
    params = [p for p in callee.params() if p not in ("self", "cls")]
    if argpos[0] >= len(params):
        return None
    pname = params[argpos[0]]
    rets = [n for n in walk_no_nested(callee.node)
            if isinstance(n, ast.Return) and n.value is not None]
    if len(rets) != 1:
        return None
    rv = rets[0].value
    elt = rv.elts[pos] if isinstance(rv, ast.Tuple) and pos is not None \
        else rv
    # unwrap wrappers that keep shape: f(X[t]) with f in a small table
    while isinstance(elt, ast.Call) and elt.args and src(elt.func) in (
            "np.ascontiguousarray", "Mesh._squeeze_if", "self._squeeze_if"):
        elt = elt.args[0]
    if isinstance(elt, ast.Subscript) and isinstance(elt.slice, ast.Name) \
            and elt.slice.id == pname and isinstance(elt.value, ast.Name):
        return (f"t = {callee.short()}(self.t) = {elt.value.id}[self.t]: "
                f"vertices renumbered, every cell keeps its index")
    return None


def _one_dimensional(model: Model, fn: FuncInfo, kwargs) -> Optional[str]:
    c = fn.cls
    if c is None:
        return None
    el = c.find_attr("elem")
    if el is None or not isinstance(el[1], ast.Name):
        return None
    r = model.resolve(el[0].module, el[1].id)
    if not r or r[0] != "class":
        return None
    rd = r[1].find_attr("refdom")
    if rd is None or src(rd[1]) != "RefLine":
        return None
    dl = kwargs.get("doflocs")
    if dl is None:
        return "one-dimensional mesh, points unchanged"
    v = dl
    if isinstance(v, ast.Name):
        d = _assigned(fn, v.id)
        v = d[0][0].value if len(d) == 1 else None
    if isinstance(v, ast.Call) and src(v.func) == "np.hstack" and isinstance(
            v.args[0], ast.Tuple) and src(v.args[0].elts[0]) in (
            "p", "self.p", "self.doflocs"):
        return ("one-dimensional mesh: facets are vertices, new points are "
                "appended after the old ones, so facet indices persist")
    return None


def derived_meshes(model: Model, prefix: str = "skfem/mesh/") -> List[DerivedMesh]:
    out = []
    for fn in model.all_functions():
        if not fn.path.startswith(prefix):
            continue
        for call in walk_no_nested(fn.node):
            if not (isinstance(call, ast.Call)
                    and isinstance(call.func, ast.Name)
                    and call.func.id == "replace" and call.args):
                continue
            kwargs = {k.arg: k.value for k in call.keywords if k.arg}
            if "t" not in kwargs:
                continue
            dm = DerivedMesh(fn, call, src(call.args[0]), kwargs,
                             _escapes(fn, call), {})
            just = (_within_cell_permutation(fn, kwargs["t"])
                    or _whole_reix(fn, kwargs["t"]))
            for f in TAG_FIELDS:
                if f in kwargs:
                    dm.verdict[f] = "set explicitly"
                elif just:
                    dm.verdict[f] = just
                elif f == "_boundaries" and _one_dimensional(model, fn,
                                                             kwargs):
                    dm.verdict[f] = _one_dimensional(model, fn, kwargs)
                elif f == "_subdomains" and _vertex_renumbering(
                        model, fn, kwargs["t"]):
                    dm.verdict[f] = _vertex_renumbering(model, fn,
                                                        kwargs["t"])
                else:
                    dm.verdict[f] = "INHERITED"
            out.append(dm)
    return out
