"""Verdict plumbing: obligations, violations, known findings, evidence files."""
from __future__ import annotations

import json
import os
import time
from dataclasses import dataclass, field
from typing import Dict, List, Optional

VERIF = os.path.dirname(os.path.dirname(os.path.abspath(__file__)))
# SKV_EVIDENCE_DIR: development runs against a scratch copy (SKV_REPO) must
# not overwrite the evidence of the registered checks
EVIDENCE_DIR = os.environ.get("SKV_EVIDENCE_DIR") or os.path.join(VERIF,
                                                                 "evidence")
KNOWN = os.path.join(VERIF, "known_findings.json")


@dataclass
class Finding:
    rule: str
    file: str
    qualname: str
    construct: str          # stable key part (no line numbers)
    message: str
    line: Optional[int] = None

    def key(self) -> str:
        return f"{self.rule}|{self.file}|{self.qualname}|{self.construct}"

    def as_dict(self) -> dict:
        return {"rule": self.rule, "file": self.file, "qualname": self.qualname,
                "construct": self.construct, "line": self.line,
                "message": self.message, "key": self.key()}


class Report:
    """Collects what one run of one property check established."""

    def __init__(self, pid: str, tier: str):
        self.pid = pid
        self.tier = tier
        self.t0 = time.time()
        self.obligations: Dict[str, int] = {}      # rule -> count checked
        self.discharged: Dict[str, int] = {}
        self.constructs: Dict[str, set] = {}       # rule -> distinct constructs
        self.findings: List[Finding] = []
        self.samples: List[dict] = []
        self.notes: List[str] = []
        self.not_analysed: List[str] = []
        self.extra: Dict[str, object] = {}
        self.rule_text: Dict[str, str] = {}
        self.analysed_units: Dict[str, int] = {}

    # -- recording -----------------------------------------------------
    def rule(self, rule: str, text: str) -> None:
        self.rule_text[rule] = text
        self.obligations.setdefault(rule, 0)
        self.discharged.setdefault(rule, 0)
        self.constructs.setdefault(rule, set())

    def ok(self, rule: str, construct: str, detail: str = "",
           sample: bool = False) -> None:
        self.obligations[rule] = self.obligations.get(rule, 0) + 1
        self.discharged[rule] = self.discharged.get(rule, 0) + 1
        self.constructs.setdefault(rule, set()).add(construct)
        if sample or len([s for s in self.samples if s["rule"] == rule]) < 2:
            self.samples.append({"rule": rule, "construct": construct,
                                 "obligation": detail, "verdict": "holds"})

    def fail(self, rule: str, file: str, qualname: str, construct: str,
             message: str, line: Optional[int] = None) -> None:
        self.obligations[rule] = self.obligations.get(rule, 0) + 1
        self.constructs.setdefault(rule, set()).add(construct)
        self.findings.append(Finding(rule, file, qualname, construct,
                                     message, line))

    def skip(self, what: str) -> None:
        """A construct outside an engine's grammar at a NON-anchored site
        (counted and reported, never silently dropped)."""
        self.not_analysed.append(what)

    def note(self, text: str) -> None:
        self.notes.append(text)

    def units(self, kind: str, n: int) -> None:
        self.analysed_units[kind] = self.analysed_units.get(kind, 0) + n

    def require_min(self, rule: str, n: int, what: str = "") -> None:
        from .model import AnalysisError
        got = self.obligations.get(rule, 0)
        if got < n:
            raise AnalysisError(
                f"{rule}: only {got} instance(s) matched, at least {n} were "
                f"confirmed by hand {what} - the rule would pass vacuously")

    # -- totals --------------------------------------------------------
    def n_obligations(self) -> int:
        return sum(self.obligations.values())

    def n_discharged(self) -> int:
        return sum(self.discharged.values())

    def n_constructs(self) -> int:
        return sum(len(v) for v in self.constructs.values())


def load_known() -> dict:
    if not os.path.exists(KNOWN):
        return {"open": [], "fixed": []}
    with open(KNOWN) as fh:
        return json.load(fh)


def finish(rep: Report, level: str, explanation: str, trusted: List[str],
           assumptions: List[str], checker_cmd: str, seed: int = 0) -> int:
    """Print the verdict, write evidence, return the exit status."""
    known = load_known()
    open_keys = {e["key"]: e for e in known.get("open", [])
                 if e.get("property") == rep.pid}
    new, listed = [], []
    for f in rep.findings:
        (listed if f.key() in open_keys else new).append(f)

    for r in sorted(rep.obligations):
        print(f"  {r}: {rep.discharged.get(r, 0)}/{rep.obligations[r]} "
              f"obligations over {len(rep.constructs.get(r, ()))} constructs"
              f" - {rep.rule_text.get(r, '')}")
    for k, v in sorted(rep.analysed_units.items()):
        print(f"  analysed {k}: {v}")
    for s in rep.not_analysed:
        print(f"  not analysed: {s}")
    for n in rep.notes:
        print(f"  note: {n}")

    os.makedirs(EVIDENCE_DIR, exist_ok=True)
    vio_path = os.path.join(EVIDENCE_DIR, f"{rep.pid}.violations.json")
    if os.path.exists(vio_path):
        os.remove(vio_path)
    for f in listed:
        print(f"KNOWN-FINDING: property={rep.pid} {f.rule} {f.file} "
              f"{f.qualname} [{f.construct}] {f.message}")
    status = 0
    if new:
        with open(vio_path, "w") as fh:
            json.dump({"property": rep.pid, "tier": rep.tier,
                       "replay_cmd": f"{VERIF}/check {rep.pid} --tier {rep.tier}",
                       "violations": [f.as_dict() for f in new]}, fh, indent=1)
        for f in new:
            loc = f"{f.file}:{f.line}" if f.line else f.file
            print(f"  violation {f.rule} at {loc} {f.qualname} "
                  f"[{f.construct}]: {f.message}")
        print(f"VIOLATION property={rep.pid} replay={vio_path}")
        status = 1

    obligations = rep.n_obligations()
    discharged = rep.n_discharged()
    # a proof claim needs discharged == obligations; otherwise the run
    # reports level "other" (DESIGN 6)
    lvl = level
    if level == "proof" and (discharged != obligations or obligations == 0):
        lvl = "other"
    cov = {
        "obligations": obligations,
        "discharged": discharged,
        "checker_cmd": checker_cmd,
        "trusted_base": trusted,
        "explanation": explanation,
        "evaluations": obligations,
        "distinct_nontrivial": rep.n_constructs(),
        "rule": "one evaluation = one obligation of a rule instance read "
                "from /repo's source on this run; distinct_nontrivial = "
                "distinct (rule, construct) pairs carrying an obligation",
        "samples": rep.samples[:12] or [{"note": "no obligations"}],
        "per_rule": {r: {"obligations": rep.obligations[r],
                         "discharged": rep.discharged.get(r, 0),
                         "constructs": len(rep.constructs.get(r, ())),
                         "rule": rep.rule_text.get(r, "")}
                     for r in sorted(rep.obligations)},
        "analysed_units": rep.analysed_units,
        "not_analysed": rep.not_analysed,
        "known_findings_reported": [f.key() for f in listed],
        "exhaustive": True,
    }
    cov.update(rep.extra)
    ev = {
        "property_id": rep.pid,
        "tier": rep.tier,
        "seed": seed,
        "level": lvl,
        "coverage": cov,
        "assumptions": assumptions,
        "wall_s": round(time.time() - rep.t0, 3),
        "violations": len(new),
    }
    with open(os.path.join(EVIDENCE_DIR, f"{rep.pid}.json"), "w") as fh:
        json.dump(ev, fh, indent=1, sort_keys=True)
    print(f"{rep.pid} {rep.tier}: {discharged}/{obligations} obligations "
          f"discharged, {len(listed)} known finding(s), {len(new)} new "
          f"violation(s), {ev['wall_s']} s")
    return status
