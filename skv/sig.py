"""Canonical index-contraction signatures of ``einsum`` calls (engine F)."""
from __future__ import annotations

import ast
from itertools import permutations
from typing import Callable, List, Optional, Tuple

from .model import AnalysisError, src


class Contraction:
    """ops: list of (role, index string); out: index string."""

    def __init__(self, ops, out, scalar=None):
        self.ops, self.out, self.scalar = list(ops), out, scalar

    def canon(self):
        """Normal form up to index renaming and operand order (operands of
        equal role are tried in every order; the least labelling wins)."""
        best = None
        roles = sorted({r for r, _ in self.ops})
        groups = [[o for o in self.ops if o[0] == r] for r in roles]

        def orders(gs):
            if not gs:
                yield []
                return
            for p in permutations(gs[0]):
                for rest in orders(gs[1:]):
                    yield list(p) + rest
        for ops in orders(groups):
            ren = {}
            for _, idx in ops:
                for ch in idx:
                    ren.setdefault(ch, chr(ord("a") + len(ren)))
            for ch in self.out:
                ren.setdefault(ch, chr(ord("a") + len(ren)))
            c = (tuple((r, "".join(ren[c] for c in idx)) for r, idx in ops),
                 "".join(ren[c] for c in self.out))
            if best is None or c < best:
                best = c
        return best

    def __eq__(self, o):
        return isinstance(o, Contraction) and self.canon() == o.canon()

    def __hash__(self):
        return hash(self.canon())

    def __repr__(self):
        c = self.canon()
        s = ",".join(f"{r}[{i}]" for r, i in c[0]) + "->" + c[1]
        if self.scalar is not None:
            s += f" * ({self.scalar})"
        return s


def parse_sig(sig: str, nops: int) -> Tuple[List[str], str]:
    """Split an einsum signature; implicit output = indices occurring once,
    alphabetically (numpy's rule).  A trailing ellipsis is kept as '.'."""
    sig = sig.replace(" ", "").replace("...", ".")
    if "->" in sig:
        ins, out = sig.split("->")
        terms = ins.split(",")
    else:
        terms = sig.split(",")
        cnt = {}
        for t in terms:
            for ch in t:
                if ch != ".":
                    cnt[ch] = cnt.get(ch, 0) + 1
        out = "".join(sorted(ch for ch, n in cnt.items() if n == 1))
        if any("." in t for t in terms):
            out = "." + out
    if len(terms) != nops:
        raise AnalysisError(f"einsum '{sig}' has {len(terms)} terms for "
                            f"{nops} operands")
    return terms, out


def einsum_call(call: ast.Call, role: Callable[[ast.expr], Optional[str]],
                dotted: Callable[[ast.expr], Optional[str]]) -> Contraction:
    d = dotted(call.func)
    if d not in ("numpy.einsum", "jax.numpy.einsum"):
        raise AnalysisError(f"not an einsum call: {src(call)[:60]}")
    if not call.args or not (isinstance(call.args[0], ast.Constant)
                             and isinstance(call.args[0].value, str)):
        raise AnalysisError(f"einsum signature is not a literal: "
                            f"{src(call)[:60]}")
    ops_nodes = call.args[1:]
    terms, out = parse_sig(call.args[0].value, len(ops_nodes))
    ops = []
    for t, n in zip(terms, ops_nodes):
        r = role(n)
        if r is None:
            raise AnalysisError(f"einsum operand '{src(n)[:40]}' has no "
                                f"known role")
        ops.append((r, t))
    return Contraction(ops, out)


def C(spec: str) -> Contraction:
    """'invDF:ijkl,dphi:il->jkl'"""
    ins, out = spec.split("->")
    ops = []
    for t in ins.split(","):
        r, i = t.split(":")
        ops.append((r, i))
    return Contraction(ops, out)
