#!/usr/bin/env python3
"""Regenerate /verif/MANIFEST.json from the per-property checker modules.

Usage: python3 tools/gen_manifest.py   (run from /verif)
"""
import importlib
import json
import os
import sys

HERE = os.path.dirname(os.path.dirname(os.path.abspath(__file__)))
sys.path.insert(0, HERE)

ALL = [f"C{n:02d}" for n in range(1, 21)]

NA_FIXED = {
    "C06": "end-to-end Galerkin exactness is the composition of C01, C02, "
           "C05, C07, C09 evaluated on concrete meshes with a 1e-10 numerical "
           "oracle; it has no clause of its own whose truth is visible in the "
           "shape of the code (the model forms are three-line definitions; "
           "comparing them with a frozen copy would be a text match), so no "
           "sound static rule decides it - see DESIGN.md section 3, C06.",
}

checks, na, engines = [], [], {}
for pid in ALL:
    if pid in NA_FIXED:
        na.append({"property_id": pid, "reason": NA_FIXED[pid]})
        continue
    try:
        mod = importlib.import_module(f"skv.props.{pid.lower()}")
    except ModuleNotFoundError:
        na.append({"property_id": pid,
                   "reason": "checker not built yet in this session (planned "
                             "in DESIGN.md section 3); not claimed until its "
                             "check runs clean on the unchanged tree"})
        continue
    checks.append({
        "property_id": pid,
        "quick_cmd": f"./check {pid} --tier quick",
        "thorough_cmd": f"./check {pid} --tier thorough",
        "evidence_file": f"/verif/evidence/{pid}.json",
        "replay_cmd_template": f"./check {pid} --replay {{path}}",
        "engine": "skv",
        "level_claimed": {"category": mod.LEVEL,
                          "text": mod.LEVEL_TEXT,
                          "design_ref": f"DESIGN.md section 3, {pid}"},
        "level_note": mod.LEVEL_NOTE,
        "technique": mod.TECHNIQUE,
    })

manifest = {
    "version": 1,
    "setup_cmd": "/venv/bin/python -B -c \"import sys; sys.path.insert(0,'/verif'); import skv.cli\"",
    "hooks": {
        "guard": "KINNALA_SCIKIT_FEM_VERIF",
        "enable": "no hooks: every check reads /repo/skfem/**/*.py as text "
                  "(ast) on each run; the guard variable is unused",
        "baseline_off_cmd": "cd /repo && /venv/bin/python -m pytest -ra -q "
                            "-p no:cacheprovider --timeout=900 "
                            "--continue-on-collection-errors",
        "source_commits": [],
        "add_only": True,
    },
    "engines": [{
        "name": "skv",
        "path": "/verif/skv",
        "serves_properties": [c["property_id"] for c in checks],
        "kind_free_text": "repository-specific static analysis over Python "
                          "ast: program model (imports, MRO, call "
                          "resolution), exact polynomial normal forms of "
                          "source fragments, literal-table audits in exact "
                          "rationals, effect/alias and memo-key analysis, "
                          "layout algebra, role/pairing rules",
    }],
    "checks": checks,
    "not_applicable": na,
    "notes": "Static analysis only: no check imports skfem, runs the test "
             "suite or calls a solver. Exit 2 + ANALYSIS-ERROR means an "
             "anchor vanished or a construct left the grammar (fail closed).",
}
with open(os.path.join(HERE, "MANIFEST.json"), "w") as fh:
    json.dump(manifest, fh, indent=1)
print(f"{len(checks)} checks, {len(na)} not applicable")
