#!/usr/bin/env python3
"""Write seeded/<id>/meta.json for every seed that has a confirm.txt, from
tools/seed_table.json (what the change needs to manifest / what had to be
strengthened) and a fresh evaluation by tools/try_seed.py.

usage: tools/write_meta.py [seed id ...]      (default: all seeds)
A seed whose confirmation does not read "demo clean exit=0, demo patched
exit!=0, 536 passed" is reported and gets no meta.json.
"""
import json
import os
import re
import subprocess
import sys

VERIF = os.path.dirname(os.path.dirname(os.path.abspath(__file__)))


def main():
    table = json.load(open(os.path.join(VERIF, "tools", "seed_table.json")))
    ids = sys.argv[1:] or sorted(os.listdir(os.path.join(VERIF, "seeded")))
    for sid in ids:
        d = os.path.join(VERIF, "seeded", sid)
        if not os.path.isfile(os.path.join(d, "patch.diff")):
            continue
        cpath = os.path.join(d, "confirm.txt")
        if not os.path.exists(cpath):
            print(sid, "NOT CONFIRMED YET")
            continue
        first = open(cpath).readline().strip()
        m = re.match(r"demo clean exit=(\d+)\s+demo patched exit=(\d+)\s+"
                     r"tests: (.*)", first)
        ok = bool(m) and m.group(1) == "0" and m.group(2) != "0" and \
            "536 passed" in m.group(3) and "2 failed" in m.group(3)
        if not ok:
            print(sid, "REJECTED:", first)
            continue
        r = subprocess.run([sys.executable,
                            os.path.join(VERIF, "tools", "try_seed.py"), d],
                           capture_output=True, text=True)
        res = json.loads(r.stdout[r.stdout.index("{"):])
        t = table.get(sid, {})
        meta = {
            "id": sid,
            "breaks_property": sid.split("-")[0],
            "source": "independent sub-agent given only the property text "
                      "and a scratch worktree",
            "needs_to_manifest": t.get("needs", "see notes.md"),
            "confirmed": {
                "how": "tools/confirm_seed.sh in a scratch worktree of /repo "
                       "(demo on the clean tree, demo with the patch, full "
                       "test suite with the patch)",
                "result": first,
            },
            "checks_reporting_it": res.get("fired", []),
            "checks_failing_closed": res.get("failed_closed", []),
            "report_lines": res.get("lines", [])[:4],
        }
        if t.get("missed"):
            meta["initially_missed"] = True
            meta["strengthening"] = t["missed"]
        with open(os.path.join(d, "meta.json"), "w") as fh:
            json.dump(meta, fh, indent=1)
        print(sid, "->", meta["checks_reporting_it"] or "**none**",
              meta["checks_failing_closed"] or "")


if __name__ == "__main__":
    main()
