#!/bin/sh
# Confirm every seed under /verif/seeded that has no confirm.txt yet
# (scratch worktree per seed, removed afterwards).  Output: seeded/<id>/confirm.txt
cd "$(dirname "$0")/.."
for d in seeded/*/; do
  id=$(basename "$d")
  [ -f "$d/patch.diff" ] || continue
  [ -f "$d/confirm.txt" ] && continue
  sh tools/confirm_seed.sh "$d" > "$d/confirm.txt" 2>&1
  echo "$id: $(head -1 "$d/confirm.txt")"
done
