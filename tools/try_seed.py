#!/usr/bin/env python3
"""Evaluate seeded breaking changes against the checks.

  tools/try_seed.py <seed dir> [...]        seed dir holds patch.diff (+ demo.py)
  tools/try_seed.py --all                   every /verif/seeded/*/

For each seed: apply patch.diff to /repo (git apply), run every property's
quick check, collect exit codes and VIOLATION lines, then restore /repo
(git checkout -- .).  Nothing is ever committed to /repo.  Prints one line
per seed: which checks fired (exit 1), which failed closed (exit 2).
"""
import glob
import json
import os
import subprocess
import sys

VERIF = os.path.dirname(os.path.dirname(os.path.abspath(__file__)))
REPO = "/repo"
ALL = ["C01", "C02", "C03", "C04", "C05", "C07", "C08", "C09", "C10", "C11",
       "C12", "C13", "C14", "C15", "C16", "C17", "C18", "C19", "C20"]


def sh(cmd, **kw):
    return subprocess.run(cmd, shell=True, capture_output=True, text=True,
                          **kw)


def evaluate(seed):
    seed = os.path.abspath(seed)
    patch = os.path.join(seed, "patch.diff")
    if sh(f"git -C {REPO} status --porcelain -- skfem").stdout.strip():
        sys.exit("refusing: /repo has uncommitted changes under skfem/")
    r = sh(f"git -C {REPO} apply {patch}")
    if r.returncode:
        return {"seed": seed, "error": "patch does not apply: " + r.stderr[:200]}
    fired, closed, lines = [], [], []
    try:
        for pid in ALL:
            r = sh(f"{VERIF}/check {pid} --tier quick", cwd=VERIF)
            if r.returncode == 1:
                fired.append(pid)
                lines += [ln.strip() for ln in r.stdout.splitlines()
                          if ln.strip().startswith("violation")][:3]
            elif r.returncode == 2:
                closed.append(pid)
                lines += [ln.strip() for ln in r.stdout.splitlines()
                          if "ANALYSIS-ERROR" in ln][:1]
    finally:
        sh(f"git -C {REPO} checkout -- .")
        # evidence files were rewritten by the runs on the patched tree:
        # restore the committed ones
        sh(f"git -C {VERIF} checkout -- evidence")
    return {"seed": os.path.basename(seed.rstrip("/")), "fired": fired,
            "failed_closed": closed, "lines": lines}


def main():
    seeds = sys.argv[1:]
    if seeds == ["--all"]:
        seeds = sorted(glob.glob(os.path.join(VERIF, "seeded", "*", "")))
    out = []
    for s in seeds:
        res = evaluate(s)
        out.append(res)
        print(json.dumps(res, indent=1))
    return 0


if __name__ == "__main__":
    sys.exit(main())
