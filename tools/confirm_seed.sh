#!/bin/sh
# Confirm a seeded change in a scratch worktree (never in /repo itself):
#   1. demo.py passes on the unmodified tree,
#   2. patch.diff applies, demo.py then fails,
#   3. the existing test suite still passes with the patch (536 passed; the
#      two test_mamba tests always fail offline).
# usage: tools/confirm_seed.sh <dir with patch.diff and demo.py>
set -u
SEED="$(cd "$1" && pwd)"
WT=/tmp/confirm_wt_$$
git -C /repo worktree add -q --detach "$WT" HEAD || exit 3
trap 'git -C /repo worktree remove --force "$WT" >/dev/null 2>&1' EXIT
cd "$WT"
PYTHONPATH="$WT" /venv/bin/python "$SEED/demo.py" >/tmp/confirm_clean_$$.log 2>&1
C=$?
git apply "$SEED/patch.diff" || { echo "PATCH-DOES-NOT-APPLY"; exit 3; }
PYTHONPATH="$WT" /venv/bin/python "$SEED/demo.py" >/tmp/confirm_patched_$$.log 2>&1
P=$?
T=$(PYTHONPATH="$WT" /venv/bin/python -m pytest -q -p no:cacheprovider --timeout=900 -n 16 tests 2>&1 | tail -1)
echo "demo clean exit=$C  demo patched exit=$P  tests: $T"
tail -2 /tmp/confirm_patched_$$.log
rm -f /tmp/confirm_clean_$$.log /tmp/confirm_patched_$$.log
