#!/usr/bin/env python3
"""Write seeded/<id>/meta.json after a seed was confirmed and evaluated.

usage: tools/seed_meta.py <seed id> <property> "<what it needs to manifest>" \
           "<confirm line>" [--missed-before "<what was strengthened>"]
Runs tools/try_seed.py on the seed and records which checks report it.
"""
import json
import os
import subprocess
import sys

VERIF = os.path.dirname(os.path.dirname(os.path.abspath(__file__)))


def main():
    sid, prop, needs, confirm = sys.argv[1:5]
    extra = sys.argv[5:]
    d = os.path.join(VERIF, "seeded", sid)
    r = subprocess.run([sys.executable, os.path.join(VERIF, "tools",
                                                     "try_seed.py"), d],
                       capture_output=True, text=True)
    res = json.loads(r.stdout[r.stdout.index("{"):])
    meta = {
        "id": sid,
        "breaks_property": prop,
        "source": "independent sub-agent given only the property text and a "
                  "scratch worktree",
        "needs_to_manifest": needs,
        "confirmed": {
            "how": "tools/confirm_seed.sh in a scratch worktree of /repo "
                   "(demo on clean tree, demo with patch, full test suite "
                   "with patch)",
            "result": confirm,
        },
        "checks_reporting_it": res.get("fired", []),
        "checks_failing_closed": res.get("failed_closed", []),
        "report_lines": res.get("lines", []),
    }
    if "--missed-before" in extra:
        meta["initially_missed"] = True
        meta["strengthening"] = extra[extra.index("--missed-before") + 1]
    with open(os.path.join(d, "meta.json"), "w") as fh:
        json.dump(meta, fh, indent=1)
    print(sid, "->", meta["checks_reporting_it"], meta["checks_failing_closed"])


if __name__ == "__main__":
    main()
